#!/bin/sh
# Runs every claimed check's quick command (regenerating evidence) and prints a one-line summary per property.
cd "$(dirname "$0")/.."
for p in $(python3 -c "import json;print(' '.join(c['property_id'] for c in json.load(open('MANIFEST.json'))['checks']))"); do
  s=$(date +%s)
  out=$(./run.sh $p ${1:-quick} 2>&1); rc=$?
  e=$(date +%s)
  echo "$p rc=$rc $((e-s))s $(echo "$out" | grep -c '^VIOLATION') violations, $(echo "$out" | grep -c '^INCONCLUSIVE') inconclusive, $(echo "$out" | grep -c '^KNOWN-FINDING') known"
  echo "$out" | grep '^VIOLATION\|^INCONCLUSIVE' | cut -c1-300
done
