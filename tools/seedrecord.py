#!/usr/bin/env python3
"""Runs tools/seedtest.sh for a seed and records the outcome under /verif/seeded/<PROP>-<N>/.
usage: seedrecord.py PROP N [CHECKPROP ...]"""
import json, os, re, shutil, subprocess, sys
prop, n = sys.argv[1], sys.argv[2]
checks = sys.argv[3:] or [prop]
sd = os.environ.get("SEED_DIR_PREFIX", "/tmp/seed_") + prop
round_tag = os.environ.get("SEED_ROUND", "")
out = subprocess.run(["/verif/tools/seedtest.sh", prop, n] + checks, capture_output=True, text=True).stdout
dst = f"/verif/seeded/{prop}-{round_tag}{n}"
os.makedirs(dst, exist_ok=True)
shutil.copy(f"{sd}/patch{n}.diff", f"{dst}/patch.diff")
shutil.copy(f"{sd}/demo{n}_test.go", f"{dst}/demo_test.go")
meta_txt = open(f"{sd}/meta{n}.txt").read() if os.path.exists(f"{sd}/meta{n}.txt") else ""
m = re.search(r"demo-clean=\[(.*?)\] demo-mutant=\[(.*?)\] build=\[(.*?)\] suite=\[(.*?)\]", out)
rec = {"property": prop, "seed": int(n), "source": "independent sub-agent given only the property text and a scratch worktree",
       "needs_to_manifest": meta_txt[:1500], "checks_run": checks}
if "does not apply" in out:
    rec["status"] = "stale: the patch no longer applies to /repo HEAD (the touched function was changed by a later fix: commit); not evaluated"
else:
    rec["confirmed"] = {"demo_on_unchanged_code": m.group(1) if m else "?", "demo_with_change": m.group(2) if m else "?",
                        "build_with_change": (m.group(3) or "ok") if m else "?", "existing_suite_with_change": m.group(4) if m else "?"}
    det = []
    for line in out.splitlines():
        mm = re.match(r"SEED \S+ check (\S+): (\d+) violations (\d+) inconclusive :: (.*)", line)
        if mm:
            det.append({"check": mm.group(1), "violations": int(mm.group(2)), "inconclusive": int(mm.group(3)), "failed": [x.strip() for x in mm.group(4).split(";") if x.strip()]})
    rec["check_results"] = det
    rec["detected"] = any(d["violations"] > 0 for d in det)
rec["what_was_run"] = "tools/seedtest.sh: apply patch in a scratch worktree of /repo HEAD, go build, demo test with/without the change, full suite with the change, then ./bin/mobverif run -prop <check> -tier quick with VERIF_REPO=<worktree>; worktree restored afterwards"
json.dump(rec, open(f"{dst}/meta.json", "w"), indent=1)
print(prop, n, rec.get("status") or ("DETECTED" if rec["detected"] else "MISSED"), [d["failed"][:2] for d in rec.get("check_results", [])])
