#!/usr/bin/env python3
"""Re-runs the quick checks recorded for every seeded change under /verif/seeded/ against the current machinery and
/repo HEAD (only the checks, not the sub-agent's demo), several seeds in parallel, each worker in its own scratch
worktree under /var/tmp (removed at the end). Writes the outcome into meta.json under "recheck".
usage: seedrecheck.py [-j N] [seed-id ...]"""
import json, os, re, subprocess, sys, tempfile, threading, queue
args = sys.argv[1:]
J = 4
if args[:1] == ["-j"]:
    J = int(args[1]); args = args[2:]
ids = args or sorted(d for d in os.listdir("/verif/seeded") if os.path.isdir("/verif/seeded/" + d))
env = dict(os.environ, GOFLAGS="-mod=mod", GOPROXY="off", GOSUMDB="off", GOTOOLCHAIN="local")
head = subprocess.run(["git", "-C", "/repo", "rev-parse", "--short", "HEAD"], capture_output=True, text=True).stdout.strip()
q = queue.Queue()
for i in ids:
    q.put(i)
lock = threading.Lock()
summary = {}
def worker():
    wt = tempfile.mkdtemp(prefix="verif-seed-", dir="/var/tmp"); os.rmdir(wt)
    subprocess.run(["git", "-C", "/repo", "worktree", "add", "--detach", wt, "HEAD"], capture_output=True, check=True)
    try:
        while True:
            try:
                sid = q.get_nowait()
            except queue.Empty:
                return
            d = "/verif/seeded/" + sid
            meta = json.load(open(d + "/meta.json"))
            subprocess.run(["git", "-C", wt, "reset", "-q", "--hard"]); subprocess.run(["git", "-C", wt, "clean", "-fdq"])
            rc = {"repo_head": head}
            if subprocess.run(["git", "-C", wt, "apply", d + "/patch.diff"], capture_output=True).returncode != 0:
                rc["status"] = "patch does not apply to this HEAD"
            elif subprocess.run(["go", "build", "./..."], cwd=wt, env=env, capture_output=True).returncode != 0:
                rc["status"] = "does not build on this HEAD"
            else:
                checks = meta.get("checks_run") or [meta["property"]]
                # first the harnesses that caught it when it was recorded (fast); the whole check only if they do not
                earlier = {}
                for r in (meta.get("check_results") or []) + ((meta.get("recheck") or {}).get("check_results") or []):
                    for f in r.get("failed", []):
                        earlier.setdefault(r["check"], [])
                        h = f.split(" ")[0]
                        if h not in earlier[r["check"]]:
                            earlier[r["check"]].append(h)
                res = []
                def run(c, harness=None):
                    cmd = ["/verif/bin/mobverif", "run", "-prop", c, "-tier", "quick"] + (["-harness", harness] if harness else [])
                    out = subprocess.run(cmd, cwd="/verif", env=dict(env, VERIF_REPO=wt), capture_output=True, text=True).stdout
                    v = sorted({re.sub(r".*harness=", "", l)[:110] for l in out.splitlines() if l.startswith("VIOLATION")})
                    return {"check": c, "only_harness": harness, "violations": len(v), "inconclusive": sum(1 for l in out.splitlines() if l.startswith("INCONCLUSIVE")), "failed": v[:6]}
                hit = False
                for c in checks:
                    for h in earlier.get(c, [])[:2]:
                        r = run(c, h)
                        res.append(r)
                        if r["violations"] > 0:
                            hit = True
                            break
                    if hit:
                        break
                if not hit:
                    for c in checks:
                        res.append(run(c))
                rc["check_results"] = res
                rc["detected"] = any(r["violations"] > 0 for r in res)
            meta["recheck"] = rc
            json.dump(meta, open(d + "/meta.json", "w"), indent=1)
            with lock:
                summary[sid] = rc.get("status") or ("DETECTED" if rc["detected"] else "MISSED")
                print(sid, summary[sid], flush=True)
    finally:
        subprocess.run(["git", "-C", "/repo", "worktree", "remove", "--force", wt], capture_output=True)
ts = [threading.Thread(target=worker) for _ in range(J)]
[t.start() for t in ts]; [t.join() for t in ts]
n = len(summary); d = sum(1 for v in summary.values() if v == "DETECTED")
print("rechecked %d seeds: %d detected, %d missed, %d not applicable" % (n, d, sum(1 for v in summary.values() if v == "MISSED"), n - d - sum(1 for v in summary.values() if v == "MISSED")))
