#!/bin/bash
# usage: neutraltest.sh <group N1..N6> <patch n> <props...>  - applies a behaviour-preserving refactoring and runs the checks: expected no VIOLATION
export GOFLAGS=-mod=mod GOPROXY=off GOSUMDB=off GOTOOLCHAIN=local
G=$1; N=$2; shift 2
WT=/tmp/wt_$G
cd $WT || exit 2
git checkout -q -- . ; git clean -fdq; git checkout -q --detach $(git -C /repo rev-parse HEAD) 2>/dev/null
if ! git apply --check /tmp/neutral_$G/patch$N.diff 2>/dev/null; then echo "NEUTRAL $G/$N: patch does not apply"; exit 0; fi
git apply /tmp/neutral_$G/patch$N.diff
suite=$(timeout 600 go test -vet=off -count=1 ./... 2>&1 | grep -v "no test files" | tr '\n' ' ')
git checkout -q -- internal/mobius/test 2>/dev/null; git clean -fdq internal/mobius/test 2>/dev/null
echo "NEUTRAL $G/$N suite=[$suite]"
rm -rf /tmp/neutralverif_$G; mkdir -p /tmp/neutralverif_$G; ln -s /verif/harness /tmp/neutralverif_$G/harness; cp /verif/known_findings.json /tmp/neutralverif_$G/
for C in "$@"; do
  out=$(cd /verif && VERIF_REPO=$WT timeout 1500 ./bin/mobverif run -verif /tmp/neutralverif_$G -prop $C -tier quick 2>&1)
  echo "NEUTRAL $G/$N check $C: $(echo "$out" | grep -c '^VIOLATION') violations $(echo "$out" | grep -c '^INCONCLUSIVE') inconclusive"
  echo "$out" | grep '^VIOLATION\|^INCONCLUSIVE' | cut -c1-260 | head -4
done
git checkout -q -- . ; git clean -fdq
