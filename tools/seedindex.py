#!/usr/bin/env python3
import json, glob, os
rows = []
for d in sorted(glob.glob('/verif/seeded/*-*')):
    m = json.load(open(d + '/meta.json'))
    det = []
    rc = m.get('recheck') or {}
    if 'detected' in rc and not m.get('status'):
        m['detected'] = rc['detected']
    for c in (rc.get('check_results') or m.get('check_results', [])):
        for f in c['failed']:
            det.append(c['check'] + ': ' + f.replace('assert=', '/ '))
    first = (m.get('needs_to_manifest', '').strip().split('\n') or [''])[0][:140]
    rows.append((os.path.basename(d), m.get('status') or ('detected' if m.get('detected') else 'MISSED'), '; '.join(det[:3]), first))
with open('/verif/seeded/INDEX.md', 'w') as f:
    f.write('# Seeded changes (from independent sub-agents) and what catches them\n\n')
    f.write('Each directory holds patch.diff, demo_test.go and meta.json (what the change needs to manifest, what was run, result).\n')
    f.write('"detected" = the quick check of the named property exits 1 with a VIOLATION line on the changed tree (as of the last tools/seedrecheck.py run against the current machinery and /repo HEAD, where one was made).\n\n')
    f.write('| seed | result | caught by (check: harness / assertion) |\n|---|---|---|\n')
    for r in rows:
        f.write('| %s | %s | %s |\n' % (r[0], r[1], r[2]))
    n = len(rows); d = sum(1 for r in rows if r[1] == 'detected')
    f.write('\n%d seeds, %d detected.\n' % (n, d))
print(open('/verif/seeded/INDEX.md').read()[-300:])
