#!/bin/bash
# usage: seedtest.sh <PROP> <N> [check props...]  - validates seed N of /tmp/seed_<PROP> in worktree /tmp/wt_<PROP> and runs checks against it
export GOFLAGS=-mod=mod GOPROXY=off GOSUMDB=off GOTOOLCHAIN=local
P=$1; N=$2; shift 2; CHECKS="${@:-$P}"
WT=${SEED_WT_PREFIX:-/tmp/wt_}$P; SD=${SEED_DIR_PREFIX:-/tmp/seed_}$P
cd $WT || exit 2
git checkout -q -- . ; git clean -fdq
# bring worktree to current /repo HEAD
git checkout -q --detach $(git -C /repo rev-parse HEAD) 2>/dev/null
DIR=$(head -1 $SD/demo${N}_test.go | sed 's/.*package dir: *//; s/ *$//')
[ -d "$DIR" ] || DIR=$(grep -l "^package" $SD/demo${N}_test.go >/dev/null && (grep -q "^package hotline" $SD/demo${N}_test.go && echo hotline || echo internal/mobius))
cp $SD/demo${N}_test.go $DIR/zz_demo_test.go
TESTS=$(grep -o "^func Test[A-Za-z0-9_]*" $DIR/zz_demo_test.go | sed 's/func //' | paste -sd'|')
res_clean=$(timeout 300 go test -vet=off -count=1 -run "^($TESTS)\$" ./$DIR 2>&1 | tail -1)
if ! git apply --check $SD/patch$N.diff 2>/dev/null; then echo "SEED $P/$N: patch does not apply to current HEAD"; rm -f $DIR/zz_demo_test.go; exit 0; fi
git apply $SD/patch$N.diff
build=$(go build ./... 2>&1 | tail -1)
res_mut=$(timeout 300 go test -vet=off -count=1 -run "^($TESTS)\$" ./$DIR 2>&1 | tail -1)
rm -f $DIR/zz_demo_test.go
suite=$(timeout 600 go test -vet=off -count=1 ./... 2>&1 | grep -v "no test files" | tr '\n' ' ')
git checkout -q -- internal/mobius/test 2>/dev/null; git clean -fdq internal/mobius/test 2>/dev/null
echo "SEED $P/$N: demo-clean=[$res_clean] demo-mutant=[$res_mut] build=[$build] suite=[$suite]"
rm -rf /tmp/seedverif_$P; mkdir -p /tmp/seedverif_$P; ln -s /verif/harness /tmp/seedverif_$P/harness; cp /verif/known_findings.json /tmp/seedverif_$P/
for C in $CHECKS; do
  out=$(cd /verif && VERIF_REPO=$WT timeout 1500 ./bin/mobverif run -verif /tmp/seedverif_$P -prop $C -tier quick 2>&1)
  echo "SEED $P/$N check $C: $(echo "$out" | grep -c '^VIOLATION') violations $(echo "$out" | grep -c '^INCONCLUSIVE') inconclusive :: $(echo "$out" | grep '^VIOLATION' | sed 's/.*harness=//' | cut -c1-90 | paste -sd';')"
  echo "$out" | grep '^INCONCLUSIVE' | cut -c1-200 | head -3
done
git checkout -q -- . ; git clean -fdq
