#!/usr/bin/env python3
"""Regenerates /verif/MANIFEST.json from the table below (keeps it schema-valid)."""
import json, os, sys
HERE = os.path.dirname(os.path.dirname(os.path.abspath(__file__)))
TECH = "bounded symbolic execution of the real Go SSA (go/ssa, rebuilt from /repo on every run) into SMT-LIB2 bit-vector/array queries decided by z3; counterexamples replayed natively with go test -overlay"
NOTE = ("Trusted base: the gosmt executor's Go semantics (engine/*.go), z3 4.8.12, and the environment stubs listed in the evidence file; "
        "bounds are those of the harnesses (see DESIGN.md section of the property); inputs beyond them are outside the claim.")
# id -> (claimed?, level text, design_ref, extra note / N/A reason)
CHECKS = {
 "C01": ("Every obligation (layout = reference encoder, prefixes, one-step drain lemma from an arbitrary cursor and buffer size) is decided by the solver for all field bytes/lengths within the stated bounds; a bounded unsat is 'holds within the bound'.", "3/C01", ""),
}
NA = {}
props = [json.loads(l)["id"] for l in open(os.path.join(HERE, "properties.jsonl"))]
checks, na = [], []
for p in props:
    if p in CHECKS:
        text, ref, extra = CHECKS[p]
        checks.append({
            "property_id": p,
            "quick_cmd": f"./run.sh {p} quick",
            "thorough_cmd": f"./run.sh {p} thorough",
            "evidence_file": f"/verif/evidence/{p}.json",
            "engine": "gosmt",
            "level_claimed": {"category": "model_checking", "text": text, "design_ref": "DESIGN.md " + ref},
            "level_note": NOTE + (" " + extra if extra else ""),
            "technique": TECH,
        })
    else:
        na.append({"property_id": p, "reason": NA.get(p, "no check registered yet: harness for this property is not built/validated in this revision (solver-based technique applies in principle; see DESIGN.md)")})
m = {
 "version": 1,
 "setup_cmd": "sh ./setup.sh",
 "hooks": {"guard": "verif", "enable": "none needed: harnesses are injected with go/packages Overlay and go test -overlay; /repo is never modified", 
           "baseline_off_cmd": "cd /repo && go test -vet=off -count=1 ./...", "source_commits": [], "add_only": True},
 "engines": [{"name": "gosmt", "path": "/verif/engine", "serves_properties": [c["property_id"] for c in checks],
              "kind_free_text": "symbolic executor for Go SSA written for this task: path forking + state merging, bit-vector/array SMT-LIB2 back end (z3 -in), native replay of counterexamples"}],
 "checks": checks,
 "not_applicable": na,
 "notes": "Exit 0 = held on everything explored (KNOWN-FINDING lines possible); exit 1 + VIOLATION line = reproduced counterexample. INCONCLUSIVE lines (unsupported construct, solver unknown, unreproduced model) never raise an alarm; they are listed in the evidence file as reduced coverage.",
}
json.dump(m, open(os.path.join(HERE, "MANIFEST.json"), "w"), indent=1)
print("claimed:", [c["property_id"] for c in checks])
