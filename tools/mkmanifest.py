#!/usr/bin/env python3
"""Regenerates /verif/MANIFEST.json from the table below (keeps it schema-valid)."""
import json, os, sys
HERE = os.path.dirname(os.path.dirname(os.path.abspath(__file__)))
TECH = "bounded symbolic execution of the real Go SSA (go/ssa, rebuilt from /repo on every run) into SMT-LIB2 bit-vector/array queries decided by z3; counterexamples replayed natively with go test -overlay"
NOTE = ("Trusted base: the gosmt executor's Go semantics (engine/*.go), z3 4.8.12, and the environment stubs listed in the evidence file; "
        "bounds are those of the harnesses (see DESIGN.md section of the property); inputs beyond them are outside the claim.")
# id -> (claimed?, level text, design_ref, extra note / N/A reason)
CHECKS = {
 "C03": ("Reduced claim decided on the real connection handlers: for arbitrary bytes after the handshake (every length up to 30), for requests whose handler faults on a hostile field, and for arbitrary 16-byte transfer preambles with a pending transfer, no panic escapes the handler, and the user registry, connection counter and in-progress transfer counters are exactly what the well-behaved client alone accounts for; the departure of the faulting client is announced once.", "3/C03", "Timeliness under load, memory exhaustion, goroutine pile-up, the rate limiter and the unlocked limiter map in Serve are outside the claim (they need a running process); panics inside encoders/decoders are reported by the C01/C02 harnesses as uncaught_panic."),
 "C08": ("Reply size fields for all file sizes < 2^32 and all resume offsets 0<=k<=size (plain, resumed, preview); the real DownloadHandler stream = consistent header, then exactly data[k:], then (unless resuming) an empty resource section, for all contents up to the bound.", "3/C08", "File store and *os.File reads are harness stubs; data up to 600 bytes quick / 9000 thorough (covers bufio refills); name fixed; stored info/resource forks outside this revision's claim."),
 "C09": ("One upload attempt of the real UploadHandler from an arbitrary state of the target name with the connection dying at a symbolic offset of the stream: final name appears iff everything arrived, partial file = old prefix + bytes received, existing file never touched; resume offset reported = partial length for all sizes.", "3/C09", "os calls replaced by an in-harness namespace model (O_APPEND write = append, rename atomic); quick tier: cut at every data offset and one offset inside each header part, thorough: any offset."),
 "C10": ("Real DownloadFolderHandler / UploadFolderHandler over a scripted client with symbolic choices (send/resume k/skip; file absent/partial/complete; connection cut): item headers, size prefixes and bytes compared with the reference; announced count = headers sent; dot-files never sent.", "3/C10", "filepath.Walk replaced by a lexical walk over a fixed small tree (1 file, 1 dot-file, 1 sub-folder); one file item per upload; deeper trees outside the claim."),
 "C11": ("fileWrapper.Move/Delete from every combination of existing side files carry all four files and touch nothing else; get-info and download reply agree with the disk size for all sizes < 2^32; create-folder never replaces an existing entry (C05 harness).", "3/C11", "Directory listing (os.ReadDir, ignore patterns, name encoding round trip) is not covered in this revision."),
 "C07": ("The real filepath/path Clean and Join code is executed symbolically on arbitrary client bytes (every byte value, every length up to the bound) through ReadPath, create-folder, rename, move/delete/alias, folder-upload item paths and the account manager; every path handed to a filesystem sink must lie inside the root.", "3/C07", "Bounds: path items and names up to 3 bytes each (quick) / 5 (thorough), up to two items; Mac-Roman decode modelled as identity (it cannot create or remove '/', '.' or NUL); symlinks already inside the root are outside the claim."),
 "C04": ("Path conditions of the real handleNewConnection over symbolic handshake bytes, login/password fields, account table and transaction ID: served iff handshake valid and credentials match; otherwise nothing executed, nothing queued to anyone, at most handshake reply + one error reply carrying the login's ID; registry restored.", "3/C04", "Account table, ban list, agreement and connection are harness stubs; bcrypt by contract; login/password fields up to 2 bytes each (all lengths), one appended request."),
 "C05": ("For every registered handler group the real handler runs with a fully symbolic 64-bit bitmap: effect => governing privilege, denial => privilege absent, denial is the only outcome with no side effect, entitled requests are carried out; at most one reply, to the requester.", "3/C05 + Appendix A", "Managers, file store, news store and message board are recording stubs; target kind (file/folder, category/bundle, exists/missing) symbolic; names from a finite menu."),
 "C12": ("Recipients of public/private chat lines, subject, join, leave and decline notices are decided for all read/send bitmaps of three clients and all message bytes up to 9000 (covers the 8192-byte cut), text compared with the reference format.", "3/C12", "Three clients, one private chat; real in-memory chat and client managers."),
 "C15": ("One step of the real YAMLAccountManager (create, duplicate create, edit, rename, delete) from a consistent state keeps memory = listed = files; handler password rules (absent clears, marker keeps, otherwise hash) and new-user-then-login for all short password byte strings.", "3/C15", "os and yaml replaced by the in-harness file model / contract; bcrypt by contract; concrete logins (path safety of arbitrary logins belongs to C07)."),
 "C17": ("Ban gate of the real handleNewConnection with symbolic ban mode and expiry instant: refused before any login processing iff permanently banned or not yet expired, admitted once expired; ban recorded under the peer IP with now+30min; real ban table step; disconnect effects.", "3/C17", "Clock = non-decreasing symbolic instants; IPv4 dotted addresses; persistence across restart only through the yaml contract."),
 "C18": ("One PostArticle/DeleteArticle/ListArticles/grouping step of the real ThreadedNewsYAML from a category with two articles of arbitrary distinct 32-bit IDs: fresh ID, threading links, other articles untouched, list ascending and parseable.", "3/C18", "yaml/os replaced by contract + file model; IDs below 2^32-1; two pre-existing articles."),
 "C14": ("For all frame sizes up to the 16-bit field limit the real sendTransaction performs exactly one Write carrying exactly the reference frame; unknown recipients are dropped for all IDs; field prefix = content for all lengths <= 65535 (oversize content is a listed known finding); replies carry flag, request ID and requester for all IDs.", "3/C14", "Atomicity of a single Write call on a TCP connection is assumed; per-handler reply correlation rides on the C05 harnesses."),
 "C19": ("The schedule of two clients' real Seek/Read steps is a symbolic variable: every interleaving of up to 10 steps is decided; posts are kept newest-first and are on disk when acknowledged for all texts.", "3/C19", "Steps are atomic as in the code (Read/Write hold the store mutex, Seek is one store); os functions are replaced by an in-harness file model. The shared-cursor defect found is a listed known finding."),
 "C20": ("The system-call sequence of each persistent update is extracted by symbolically executing the real update; the crash index and the partial-write length are symbolic, and at every such point the live file must hold the complete old or complete new document.", "3/C20", "os.WriteFile = create/truncate + write (any proper prefix on crash) + close; rename/remove atomic; yaml.Marshal returns an arbitrary non-empty document; fsync/power-loss ordering is outside the claim. No native replay (crash injection is in the file model)."),
 "C02": ("Chunk-insensitivity of every connection read site is decided by the solver: handshake and transfer preamble for all partitions (symbolic chunk sizes), prefix-stability lemma of the split functions for all data/lengths up to 70000, the real bufio.Scanner and the real upload receive path over a chunking reader for small streams.", "3/C02", "Whole-session equality is composed from the per-site results by argument (handlers only see tokens)."),
 "C06": ("For all 2^64 creator bitmaps and all requested access fields (0..9 bytes) the created account's bits are a subset of the creator's on both creation requests; for all target/requester bitmaps and option bytes a protected target is never banned, disconnected or messaged.", "3/C06", "AccountManager, ban list and connection are recording stubs written in Go in the harness."),
 "C13": ("Inductive step on the real MemClientMgr.Add from an arbitrary 32-bit counter value and an arbitrary live ID: the new ID is never live (covers histories of any length, including counter wrap-around).", "3/C13", "Only the ID-uniqueness and registry part of C13 is decided; notification convergence is not claimed in this revision."),
 "C16": ("One query per obligation covers all 2^64 bitmaps: save/load round trip through the real MarshalYAML/UnmarshalYAML preserves every defined privilege and grants no other; each bit is stored under the key the protocol table gives it; legacy array form loads to the same bits.", "3/C16", "YAML library modelled by its contract: struct field tagged K <-> map key K (tags read from the compiled types)."),
 "C01": ("Every obligation (layout = reference encoder, prefixes, one-step drain lemma from an arbitrary cursor and buffer size) is decided by the solver for all field bytes/lengths within the stated bounds; a bounded unsat is 'holds within the bound'.", "3/C01", ""),
}
NA = {}
props = [json.loads(l)["id"] for l in open(os.path.join(HERE, "properties.jsonl"))]
checks, na = [], []
for p in props:
    if p in CHECKS:
        text, ref, extra = CHECKS[p]
        checks.append({
            "property_id": p,
            "quick_cmd": f"./run.sh {p} quick",
            "thorough_cmd": f"./run.sh {p} thorough",
            "evidence_file": f"/verif/evidence/{p}.json",
            "engine": "gosmt",
            "level_claimed": {"category": "model_checking", "text": text, "design_ref": "DESIGN.md " + ref},
            "level_note": NOTE + (" " + extra if extra else ""),
            "technique": TECH,
        })
    else:
        na.append({"property_id": p, "reason": NA.get(p, "no check registered yet: harness for this property is not built/validated in this revision (solver-based technique applies in principle; see DESIGN.md)")})
m = {
 "version": 1,
 "setup_cmd": "sh ./setup.sh",
 "hooks": {"guard": "verif", "enable": "none needed: harnesses are injected with go/packages Overlay and go test -overlay; /repo is never modified", 
           "baseline_off_cmd": "cd /repo && go test -vet=off -count=1 ./...", "source_commits": [], "add_only": True},
 "engines": [{"name": "gosmt", "path": "/verif/engine", "serves_properties": [c["property_id"] for c in checks],
              "kind_free_text": "symbolic executor for Go SSA written for this task: path forking + state merging, bit-vector/array SMT-LIB2 back end (z3 -in), native replay of counterexamples"}],
 "checks": checks,
 "not_applicable": na,
 "notes": "Exit 0 = held on everything explored (KNOWN-FINDING lines possible); exit 1 + VIOLATION line = reproduced counterexample. INCONCLUSIVE lines (unsupported construct, solver unknown, unreproduced model) never raise an alarm; they are listed in the evidence file as reduced coverage.",
}
json.dump(m, open(os.path.join(HERE, "MANIFEST.json"), "w"), indent=1)
print("claimed:", [c["property_id"] for c in checks])
