#!/usr/bin/env python3
"""Re-runs every behaviour-preserving refactoring kept under /verif/neutral/<id>/patch.diff against the quick checks of
the properties whose anchor files it touches (plus any property named in its meta.txt). Expected: no VIOLATION.
Uses one scratch worktree of /repo HEAD under /var/tmp, removed at the end. usage: neutralall.py [id ...]"""
import json, os, re, subprocess, sys, tempfile
env = dict(os.environ, GOFLAGS="-mod=mod", GOPROXY="off", GOSUMDB="off", GOTOOLCHAIN="local")
props = [json.loads(l) for l in open("/verif/properties.jsonl")]
ids = sys.argv[1:] or sorted(d for d in os.listdir("/verif/neutral") if os.path.isdir("/verif/neutral/" + d))
wt = tempfile.mkdtemp(prefix="verif-neutral-", dir="/var/tmp")
os.rmdir(wt)
subprocess.run(["git", "-C", "/repo", "worktree", "add", "--detach", wt, "HEAD"], capture_output=True, check=True)
tot = {"runs": 0, "violations": 0, "inconclusive": 0}
try:
    for nid in ids:
        d = "/verif/neutral/" + nid
        patch = open(d + "/patch.diff").read()
        files = set(re.findall(r"^\+\+\+ b/(\S+)", patch, re.M))
        meta = open(d + "/meta.txt").read() if os.path.exists(d + "/meta.txt") else ""
        checks = sorted({p["id"] for p in props if files & set(p["anchors"]["files"])} | set(re.findall(r"\bC[0-2][0-9]\b", meta[:400])))
        subprocess.run(["git", "-C", wt, "checkout", "-q", "--", "."]); subprocess.run(["git", "-C", wt, "clean", "-fdq"])
        if subprocess.run(["git", "-C", wt, "apply", d + "/patch.diff"], capture_output=True).returncode != 0:
            json.dump({"id": nid, "status": "patch no longer applies to /repo HEAD"}, open(d + "/result.json", "w"), indent=1)
            print(nid, "does not apply"); continue
        suite = subprocess.run(["go", "test", "-vet=off", "-count=1", "./..."], cwd=wt, env=env, capture_output=True, text=True)
        subprocess.run(["git", "-C", wt, "checkout", "-q", "--", "internal/mobius/test"])
        res = {"id": nid, "files": sorted(files), "existing_suite_with_change": "ok" if suite.returncode == 0 else "FAIL", "checks": []}
        for c in checks:
            out = subprocess.run(["/verif/bin/mobverif", "run", "-verif", "/verif", "-prop", c, "-tier", "quick"], cwd="/verif",
                                 env=dict(env, VERIF_REPO=wt), capture_output=True, text=True, timeout=1800).stdout
            v = [l[:200] for l in out.splitlines() if l.startswith("VIOLATION")]
            i = [l[:200] for l in out.splitlines() if l.startswith("INCONCLUSIVE")]
            res["checks"].append({"check": c, "violations": v, "inconclusive": i})
            tot["runs"] += 1; tot["violations"] += len(v) > 0; tot["inconclusive"] += len(i) > 0
            print(nid, c, "violations=%d inconclusive=%d" % (len(v), len(i)), flush=True)
        json.dump(res, open(d + "/result.json", "w"), indent=1)
finally:
    subprocess.run(["git", "-C", "/repo", "worktree", "remove", "--force", wt], capture_output=True)
print(tot)
