#!/bin/sh
# Build the verifier offline from files on disk only.
set -e
cd "$(dirname "$0")/engine"
export GOFLAGS=-mod=mod GOPROXY=off GOSUMDB=off GOTOOLCHAIN=local CGO_ENABLED=0
mkdir -p ../bin
go build -o ../bin/mobverif .
echo "built /verif/bin/mobverif"
