package mobius

import (
	"github.com/jhalter/mobius/hotline"
)


// The download reply announces the remaining data length as the file size and, for a file without a stored
// resource fork, header + remaining data as the transfer size; a preview request gets the bare data size.
func VH_C08_DownloadReplySizes() {
	vUnroll(300)
	e := vNewEnv()
	e.cc.Account.FileRoot = "/own" // this account has its own file root; the server-wide one is /r
	e.cc.Account.Access = hotline.AccessBitmap{0xff, 0xff, 0xff, 0xff, 0xff, 0xff, 0xff, 0xff}
	vAssume(e.fs.exists && !e.fs.isDir)
	size := vInt("file_size")
	vAssume(0 <= size && size < 1<<32)
	e.fs.size = int64(size)
	vAssume(!e.fs.infoFork) // header length below is that of a file without stored info fork
	// the stored name is "target.txt" or a 200-byte name (header longer than 256 bytes)
	nameLen := 10
	nameField := c05Name
	if vBool("long_name") {
		long := make([]byte, 200)
		for i := range long {
			long[i] = 'n'
		}
		nameField = f(hotline.FieldFileName, long)
		nameLen = 200
	}
	fields := []hotline.Field{nameField, f(hotline.FieldFilePath, vPathField("docs"))}
	k := 0
	if vBool("resume") {
		k = vInt("resume_offset")
		vAssume(0 <= k && k <= size)
		off := []byte{byte(k >> 24), byte(k >> 16), byte(k >> 8), byte(k)}
		rd, _ := hotline.NewFileResumeData([]hotline.ForkInfoList{*hotline.NewForkInfoList(off)}).BinaryMarshal()
		fields = append(fields, f(hotline.FieldFileResumeData, rd))
	}
	preview := vBool("preview")
	if preview {
		fields = append(fields, f(hotline.FieldFileTransferOptions, []byte{0, 2}))
	}
	t := hotline.NewTransaction(hotline.TranDownloadFile, e.cc.ID, fields...)
	res := HandleDownloadFile(e.cc, &t)
	vAssert("one_reply", len(res) == 1 && res[0].IsReply == 1 && res[0].ErrorCode == [4]byte{})
	var fileSize, xfer []byte
	for _, fl := range res[0].Fields {
		if fl.Type == hotline.FieldFileSize {
			fileSize = fl.Data
		}
		if fl.Type == hotline.FieldTransferSize {
			xfer = fl.Data
		}
	}
	vAssert("size_fields_present", len(fileSize) == 4 && len(xfer) == 4)
	vAssert("file_size_is_remaining_data", c08U32(fileSize) == size-k)
	// header: FILP(24) + INFO hdr(16) + info fork(72 + len("target.txt") + 2) + DATA hdr(16)
	headerLen := 24 + 16 + 72 + nameLen + 2 + 16
	if preview {
		vAssert("preview_transfer_size_is_bare_data", c08U32(xfer) == size-k)
	} else {
		vAssert("transfer_size_is_header_plus_remaining", c08U32(xfer) == (headerLen+size-k)&0xffffffff)
	}
	vAssert("one_transfer_registered", len(e.ftm.added) == 1 && e.ftm.added[0].Type == hotline.FileDownload)
	// the stream is produced later from what the registered transfer names: the same file the sizes were computed from
	vAssert("transfer_names_the_file_the_reply_describes", e.ftm.added[0].FileRoot == e.cc.FileRoot() && string(e.ftm.added[0].FileName) == string(t.GetField(hotline.FieldFileName).Data))
	vObserveInt("xfer", c08U32(xfer))
}
