package mobius

import (
	"github.com/jhalter/mobius/hotline"
)

// Upload request: refused when the final name exists (never overwrites); a resume request is told to continue
// from exactly the length of the partial file.
func VH_C09_UploadRequest() {
	e := vNewEnv()
	e.cc.Account.FileRoot = "/own" // this account has its own file root; the server-wide one is /r
	e.cc.Account.Access = hotline.AccessBitmap{0xff, 0xff, 0xff, 0xff, 0xff, 0xff, 0xff, 0xff}
	vAssume(!e.fs.isDir)
	resume := vBool("resume")
	psize := vInt("partial_size")
	vAssume(0 <= psize && psize < 1<<32)
	e.fs.partial = resume
	e.fs.partSize = int64(psize)
	fields := []hotline.Field{c05Name, f(hotline.FieldFilePath, vPathField("Uploads"))}
	if resume {
		fields = append(fields, f(hotline.FieldFileTransferOptions, []byte{0, 1}))
	} else {
		fields = append(fields, f(hotline.FieldTransferSize, []byte{0, 0, 1, 0}))
	}
	t := hotline.NewTransaction(hotline.TranUploadFile, e.cc.ID, fields...)
	res := HandleUploadFile(e.cc, &t)
	if e.fs.exists {
		vAssert("existing_name_refused", vIsErrReply(res))
		vAssert("existing_name_no_transfer", len(e.ftm.added) == 0)
		return
	}
	vAssert("upload_granted", len(res) == 1 && !vIsErrReply(res) && len(e.ftm.added) == 1)
	// the bytes arrive later under what the registered transfer names: the place the existence / partial checks looked at
	vAssert("transfer_names_the_place_that_was_checked", e.ftm.added[0].FileRoot == e.cc.FileRoot())
	if resume {
		var rd []byte
		for _, fl := range res[0].Fields {
			if fl.Type == hotline.FieldFileResumeData {
				rd = fl.Data
			}
		}
		vAssert("resume_data_present", len(rd) == 58)
		vAssert("resume_data_format", rd[0] == 'R' && rd[1] == 'F' && rd[2] == 'L' && rd[3] == 'T' && rd[42] == 'D' && rd[43] == 'A' && rd[44] == 'T' && rd[45] == 'A')
		vAssert("resume_offset_is_partial_length", c08U32(rd[46:50]) == psize)
	}
}
