package mobius

import (
	"github.com/jhalter/mobius/hotline"
)

func c13Field(t hotline.Transaction, id [2]byte) []byte {
	for _, fl := range t.Fields {
		if fl.Type == id {
			return fl.Data
		}
	}
	return nil
}

// A user changes name/icon/options: every change notice carries exactly what the registry holds afterwards, one
// notice per connected user, and the user list fetched afterwards shows the same values - so a client that folds
// the notices into the list it fetched earlier ends up with the server's list.
func VH_C13_ChangeNoticeCarriesPostState() {
	e := vNewEnv()
	icon := vBytesN("icon", 2)
	name := vBytesEach("name", 2)
	opts := vBytesN("options", 2)
	vAssume(opts[0] == 0 && opts[1] < 8)
	auto := vBytesEach("autoreply", 2)
	var res []hotline.Transaction
	viaAgreed := vBool("via_agreed")
	if viaAgreed {
		t := hotline.NewTransaction(hotline.TranAgreed, e.cc.ID, f(hotline.FieldUserName, name), f(hotline.FieldUserIconID, icon), f(hotline.FieldOptions, opts), f(hotline.FieldAutomaticResponse, auto))
		res = HandleTranAgreed(e.cc, &t)
	} else {
		t := hotline.NewTransaction(hotline.TranSetClientUserInfo, e.cc.ID, f(hotline.FieldUserName, name), f(hotline.FieldUserIconID, icon), f(hotline.FieldOptions, opts), f(hotline.FieldAutomaticResponse, auto))
		res = HandleSetClientUserInfo(e.cc, &t)
	}
	notices := 0
	toOther := 0
	for _, r := range res {
		if r.Type != hotline.TranNotifyChangeUser {
			continue
		}
		notices++
		if r.ClientID == e.other.ID {
			toOther++
		}
		vAssert("notice_names_the_changed_user", string(c13Field(r, hotline.FieldUserID)) == string(e.cc.ID[:]))
		vAssertEqBytes("notice_icon_is_current_icon", c13Field(r, hotline.FieldUserIconID), e.cc.Icon)
		vAssertEqBytes("notice_flags_are_current_flags", c13Field(r, hotline.FieldUserFlags), e.cc.Flags[:])
		vAssertEqBytes("notice_name_is_current_name", c13Field(r, hotline.FieldUserName), e.cc.UserName)
	}
	vAssert("other_user_notified_exactly_once", toOther == 1)
	if viaAgreed {
		vAssert("agreed_notifies_others_only", notices == 1)
	} else {
		vAssert("change_notifies_every_user", notices == 2)
	}
	// flags follow the options: bit 0 refuse messages, bit 1 refuse chat
	vAssert("refuse_pm_flag_follows_option", e.cc.Flags.IsSet(hotline.UserFlagRefusePM) == (opts[1]&1 != 0))
	vAssert("refuse_chat_flag_follows_option", e.cc.Flags.IsSet(hotline.UserFlagRefusePChat) == (opts[1]&2 != 0))
	// the list fetched now shows the same record for that user
	lt := hotline.NewTransaction(hotline.TranGetUserNameList, e.other.ID)
	lr := HandleGetUserNameList(e.other, &lt)
	vAssert("list_reply", len(lr) == 1 && len(lr[0].Fields) == 2)
	found := 0
	for _, fl := range lr[0].Fields {
		b := fl.Data
		if len(b) >= 8 && b[0] == e.cc.ID[0] && b[1] == e.cc.ID[1] {
			found++
			vAssertEqBytes("listed_icon_is_current_icon", b[2:4], e.cc.Icon)
			vAssertEqBytes("listed_flags_are_current_flags", b[4:6], e.cc.Flags[:])
			vAssert("listed_name_len", int(b[6])<<8|int(b[7]) == len(e.cc.UserName))
			vAssertEqBytes("listed_name_is_current_name", b[8:], e.cc.UserName)
		}
	}
	vAssert("changed_user_listed_once", found == 1)
}

// Private message: reaches only the addressed live user; the refuse flag and the automatic reply are honoured.
func VH_C13_InstantMessageTable() {
	e := vNewEnv()
	e.cc.Account.Access = hotline.AccessBitmap{0xff, 0xff, 0xff, 0xff, 0xff, 0xff, 0xff, 0xff}
	third := vNewClient(e.srv, "third")
	refuse := vBool("target_refuses_messages")
	if refuse {
		e.other.Flags.Set(hotline.UserFlagRefusePM, 1)
	}
	e.other.AutoReply = vBytesEach("autoreply", 2)
	toLive := vBool("addressed_to_live_user")
	target := e.other.ID[:]
	if !toLive {
		target = []byte{0x7f, 0x7f}
	}
	msg := vBytesEach("msg", 2)
	t := hotline.NewTransaction(hotline.TranSendInstantMsg, e.cc.ID, f(hotline.FieldUserID, target), f(hotline.FieldData, msg))
	res := HandleSendInstantMsg(e.cc, &t)
	toOther, toThird, toMe := 0, 0, 0
	for _, r := range res {
		if r.IsReply == 1 {
			continue
		}
		switch r.ClientID {
		case e.other.ID:
			toOther++
			vAssertEqBytes("delivered_text_is_the_message", c13Field(r, hotline.FieldData), msg)
			vAssert("delivered_names_the_sender", string(c13Field(r, hotline.FieldUserID)) == string(e.cc.ID[:]))
		case third.ID:
			toThird++
		case e.cc.ID:
			toMe++
		}
	}
	vAssert("never_reaches_a_bystander", toThird == 0)
	if !toLive {
		vAssert("unknown_id_reaches_nobody", toOther == 0 && toMe == 0)
		return
	}
	if refuse {
		vAssert("refusing_user_receives_nothing", toOther == 0)
	} else {
		vAssert("message_delivered_once", toOther == 1)
	}
	wantBack := 0
	if refuse {
		wantBack++
	}
	if len(e.other.AutoReply) > 0 {
		wantBack++
	}
	vAssert("sender_gets_refusal_and_or_auto_reply", toMe == wantBack)
}
