package mobius

import (
	"github.com/jhalter/mobius/hotline"
)

func c12Count(res []hotline.Transaction, to hotline.ClientID, ty hotline.TranType) int {
	n := 0
	for _, t := range res {
		if t.ClientID == to && t.Type == ty && t.IsReply == 0 {
			n++
		}
	}
	return n
}

func c12Setup(sender string) (*hotline.Server, *hotline.ClientConn, *hotline.ClientConn, *hotline.ClientConn) {
	srv, _ := hotline.NewServer()
	srv.Logger = vLogger()
	cc := vNewClient(srv, sender)
	b := vNewClient(srv, "bee")
	c := vNewClient(srv, "cee")
	return srv, cc, b, c
}

// Public chat line: delivered exactly once to every connected user who may read chat (the sender included, when
// entitled), to nobody else; text = "\r" + name right-aligned/truncated to 13 + ":  " + message, cut to 8192 bytes.
func VH_C12_PublicChat() {
	names := []string{"me", "ABCDEFGHIJKLMNOP"}
	padded := []string{"           me", "ABCDEFGHIJKLM"}
	ni := vChoice("name", 2)
	_, cc, b, c := c12Setup(names[ni])
	msg := vBytes("msg", 70000)
	emote := vBool("emote")
	fields := []hotline.Field{hotline.NewField(hotline.FieldData, msg)}
	if emote {
		fields = append(fields, hotline.NewField(hotline.FieldChatOptions, []byte{0, 1}))
	}
	if vBool("frogblast_zero_chat_id") {
		fields = append(fields, hotline.NewField(hotline.FieldChatID, []byte{0, 0, 0, 0}))
	}
	t := hotline.NewTransaction(hotline.TranChatSend, cc.ID, fields...)
	res := HandleChatSend(cc, &t)
	if !vBit(cc.Account.Access, hotline.AccessSendChat) {
		vAssert("no_send_priv_error_only", vIsErrReply(res))
		return
	}
	for _, u := range []*hotline.ClientConn{cc, b, c} {
		want := 0
		if vBit(u.Account.Access, hotline.AccessReadChat) {
			want = 1
		}
		vAssert("public_line_exactly_once_iff_may_read_"+string(u.UserName[:2]), c12Count(res, u.ID, hotline.TranChatMsg) == want)
	}
	nread := 0
	for _, u := range []*hotline.ClientConn{cc, b, c} {
		if vBit(u.Account.Access, hotline.AccessReadChat) {
			nread++
		}
	}
	vAssert("public_nothing_else_produced", len(res) == nread)
	var ref []byte
	if emote {
		ref = append([]byte("\r*** "+names[ni]+" "), msg...)
	} else {
		ref = append([]byte("\r"+padded[ni]+":  "), msg...)
	}
	if len(ref) > 8192 {
		ref = ref[:8192]
	}
	for _, r := range res {
		vAssert("public_line_has_one_field", len(r.Fields) == 1 && r.Fields[0].Type == hotline.FieldData)
		vAssertEqBytes("public_line_text", r.Fields[0].Data, ref)
	}
}

// Private chat: line, subject, join, leave and decline notices go exactly once to each current member, nobody else.
func VH_C12_PrivateChat() {
	srv, cc, b, c := c12Setup("me")
	cc.Account.Access = hotline.AccessBitmap{0xff, 0xff, 0xff, 0xff, 0xff, 0xff, 0xff, 0xff}
	chat := srv.ChatMgr.New(cc)
	vAssume(chat != hotline.ChatID{}) // the all-zero ID (1 in 2^32 random draws) means "public chat" on the wire
	bIn := vBool("bee_is_member")
	if bIn {
		srv.ChatMgr.Join(chat, b)
	}
	members := []*hotline.ClientConn{cc}
	if bIn {
		members = append(members, b)
	}
	expect := func(u *hotline.ClientConn) int {
		for _, m := range members {
			if m == u {
				return 1
			}
		}
		return 0
	}
	all := []*hotline.ClientConn{cc, b, c}
	// a line
	msg := vBytes("msg", 100)
	t := hotline.NewTransaction(hotline.TranChatSend, cc.ID, hotline.NewField(hotline.FieldData, msg), hotline.NewField(hotline.FieldChatID, chat[:]))
	res := HandleChatSend(cc, &t)
	for _, u := range all {
		vAssert("private_line_members_only_"+string(u.UserName[:2]), c12Count(res, u.ID, hotline.TranChatMsg) == expect(u))
	}
	vAssert("private_line_nothing_else", len(res) == len(members))
	for _, r := range res {
		vAssert("private_line_carries_chat_id", len(r.Fields) == 2 && r.Fields[0].Type == hotline.FieldChatID && string(r.Fields[0].Data) == string(chat[:]))
		vAssertEqBytes("private_line_text", r.Fields[1].Data, append([]byte("\r           me:  "), msg...))
	}
	// subject change
	st := hotline.NewTransaction(hotline.TranSetChatSubject, cc.ID, hotline.NewField(hotline.FieldChatID, chat[:]), hotline.NewField(hotline.FieldChatSubject, []byte("topic")))
	res = HandleSetChatSubject(cc, &st)
	for _, u := range all {
		vAssert("subject_members_only_"+string(u.UserName[:2]), c12Count(res, u.ID, hotline.TranNotifyChatSubject) == expect(u))
	}
	vAssert("subject_nothing_else", len(res) == len(members))
	vAssert("subject_stored", srv.ChatMgr.GetSubject(chat) == "topic")
	// cee declines an invitation: members are told, cee is not a member afterwards
	rj := hotline.NewTransaction(hotline.TranRejectChatInvite, c.ID, hotline.NewField(hotline.FieldChatID, chat[:]))
	res = HandleRejectChatInvite(c, &rj)
	for _, u := range all {
		vAssert("decline_notice_members_only_"+string(u.UserName[:2]), c12Count(res, u.ID, hotline.TranChatMsg) == expect(u))
	}
	vAssert("decliner_not_member", len(srv.ChatMgr.Members(chat)) == len(members))
	// cee joins: current members are told once each, the reply lists every member including cee
	jn := hotline.NewTransaction(hotline.TranJoinChat, c.ID, hotline.NewField(hotline.FieldChatID, chat[:]))
	res = HandleJoinChat(c, &jn)
	for _, u := range []*hotline.ClientConn{cc, b} {
		vAssert("join_notice_members_only_"+string(u.UserName[:2]), c12Count(res, u.ID, hotline.TranNotifyChatChangeUser) == expect(u))
	}
	vAssert("joiner_not_notified_about_itself", c12Count(res, c.ID, hotline.TranNotifyChatChangeUser) == 0)
	vAssert("join_reply_lists_members", len(res) == len(members)+1 && res[len(res)-1].IsReply == 1 && len(res[len(res)-1].Fields) == 1+len(members)+1)
	vAssert("joined", len(srv.ChatMgr.Members(chat)) == len(members)+1)
	// joining again (e.g. accepting a second invitation) changes nothing: still a member once
	HandleJoinChat(c, &jn)
	vAssert("second_join_is_idempotent", len(srv.ChatMgr.Members(chat)) == len(members)+1)
	res = HandleChatSend(cc, &t)
	vAssert("member_that_joined_twice_receives_once", c12Count(res, c.ID, hotline.TranChatMsg) == 1 && len(res) == len(members)+1)
	// cee leaves: remaining members are told, cee gets nothing, and nothing further afterwards
	lv := hotline.NewTransaction(hotline.TranLeaveChat, c.ID, hotline.NewField(hotline.FieldChatID, chat[:]))
	res = HandleLeaveChat(c, &lv)
	for _, u := range []*hotline.ClientConn{cc, b} {
		vAssert("leave_notice_members_only_"+string(u.UserName[:2]), c12Count(res, u.ID, hotline.TranNotifyChatDeleteUser) == expect(u))
	}
	vAssert("leaver_gets_nothing", c12Count(res, c.ID, hotline.TranNotifyChatDeleteUser) == 0 && len(res) == len(members))
	res = HandleChatSend(cc, &t)
	vAssert("after_leave_receives_nothing", c12Count(res, c.ID, hotline.TranChatMsg) == 0 && len(res) == len(members))
}

// Invitation to a new private chat: only the invited user is invited (once), unless that user refuses private
// chats - then nobody is invited and the inviter is told; the new chat has the inviter as its only member, so the
// invited user receives nothing from it until joining.
func VH_C12_InviteNewChat() {
	srv, cc, b, c := c12Setup("me")
	cc.Account.Access = hotline.AccessBitmap{0xff, 0xff, 0xff, 0xff, 0xff, 0xff, 0xff, 0xff}
	refuses := vBool("target_refuses_private_chat")
	if refuses {
		b.Flags.Set(hotline.UserFlagRefusePChat, 1)
	}
	t := hotline.NewTransaction(hotline.TranInviteNewChat, cc.ID, hotline.NewField(hotline.FieldUserID, b.ID[:]))
	res := HandleInviteNewChat(cc, &t)
	invB, invC, toldMe := 0, 0, 0
	var chat hotline.ChatID
	for _, r := range res {
		if r.Type == hotline.TranInviteToChat && r.IsReply == 0 {
			if r.ClientID == b.ID {
				invB++
			}
			if r.ClientID == c.ID {
				invC++
			}
		}
		if r.Type == hotline.TranServerMsg && r.ClientID == cc.ID {
			toldMe++
		}
		if r.IsReply == 1 {
			copy(chat[:], r.Fields[0].Data)
		}
	}
	vAssert("bystander_never_invited", invC == 0)
	if refuses {
		vAssert("refusing_user_not_invited", invB == 0 && toldMe == 1)
	} else {
		vAssert("invited_exactly_once", invB == 1 && toldMe == 0)
	}
	vAssume(chat != hotline.ChatID{})
	m := srv.ChatMgr.Members(chat)
	vAssert("new_chat_has_only_the_inviter", len(m) == 1 && m[0] == cc)
	// a line into the new chat before anybody joined reaches the inviter alone
	st := hotline.NewTransaction(hotline.TranChatSend, cc.ID, hotline.NewField(hotline.FieldData, []byte("hi")), hotline.NewField(hotline.FieldChatID, chat[:]))
	res = HandleChatSend(cc, &st)
	vAssert("invited_but_not_joined_receives_nothing", c12Count(res, b.ID, hotline.TranChatMsg) == 0 && c12Count(res, cc.ID, hotline.TranChatMsg) == 1 && len(res) == 1)
}

// A member that disconnects without sending Leave Chat is no longer a member: whoever holds its user ID later (IDs
// of departed users are handed out again, see C13) receives nothing from that chat.
func VH_C12_DisconnectedMemberReceivesNothingFurther_sym() {
	srv, cc, b, _ := c12Setup("me")
	cc.Account.Access = hotline.AccessBitmap{0xff, 0xff, 0xff, 0xff, 0xff, 0xff, 0xff, 0xff}
	chat := srv.ChatMgr.New(cc)
	vAssume(chat != hotline.ChatID{})
	srv.ChatMgr.Join(chat, b)
	oldID := b.ID
	b.Disconnect()
	vAssert("departed_member_left_the_chat", len(srv.ChatMgr.Members(chat)) == 1)
	// a newcomer that was given the departed member's ID
	d := &hotline.ClientConn{Connection: &vConn{}, Server: srv, Account: &hotline.Account{Login: "dee", Name: "dee", Access: cc.Account.Access},
		UserName: []byte("dee"), RemoteAddr: "10.0.0.9:5500", Icon: []byte{0, 1}, Logger: vLogger()}
	srv.ClientMgr.Add(d)
	d.ID = oldID
	t := hotline.NewTransaction(hotline.TranChatSend, cc.ID, hotline.NewField(hotline.FieldData, []byte("psst")), hotline.NewField(hotline.FieldChatID, chat[:]))
	res := HandleChatSend(cc, &t)
	vAssert("later_holder_of_the_id_gets_no_private_line", c12Count(res, oldID, hotline.TranChatMsg) == 0)
	st := hotline.NewTransaction(hotline.TranSetChatSubject, cc.ID, hotline.NewField(hotline.FieldChatID, chat[:]), hotline.NewField(hotline.FieldChatSubject, []byte("topic")))
	res = HandleSetChatSubject(cc, &st)
	vAssert("later_holder_of_the_id_gets_no_subject_notice", c12Count(res, oldID, hotline.TranNotifyChatSubject) == 0)
}
