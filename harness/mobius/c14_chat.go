package mobius

import (
	"github.com/jhalter/mobius/hotline"
)

// What a handler hands to the sender is framed from the fields as they are: every field's own length prefix must
// equal the bytes it carries, also when the handler shortens the content (chat lines are cut to 8192 bytes), for
// public and private chat, plain and emote, messages of every length up to 70000.
func VH_C14_ChatLineFieldPrefixes() {
	srv, _ := hotline.NewServer()
	srv.Logger = vLogger()
	cc, b := vNewClient(srv, "me"), vNewClient(srv, "bee")
	cc.Account.Access = hotline.AccessBitmap{0xff, 0xff, 0xff, 0xff, 0xff, 0xff, 0xff, 0xff}
	b.Account.Access = cc.Account.Access
	msg := vBytes("msg", 70000)
	fields := []hotline.Field{hotline.NewField(hotline.FieldData, msg)}
	if vBool("emote") {
		fields = append(fields, hotline.NewField(hotline.FieldChatOptions, []byte{0, 1}))
	}
	if vBool("private") {
		chat := srv.ChatMgr.New(cc)
		vAssume(chat != hotline.ChatID{})
		srv.ChatMgr.Join(chat, b)
		fields = append(fields, hotline.NewField(hotline.FieldChatID, chat[:]))
	}
	t := hotline.NewTransaction(hotline.TranChatSend, cc.ID, fields...)
	res := HandleChatSend(cc, &t)
	vAssert("chat_line_delivered", len(res) >= 2)
	for _, r := range res {
		for _, fl := range r.Fields {
			vAssert("field_prefix_equals_field_content", int(fl.FieldSize[0])<<8|int(fl.FieldSize[1]) == len(fl.Data))
		}
	}
}
