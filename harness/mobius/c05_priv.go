package mobius

import (
	"github.com/jhalter/mobius/hotline"
)

func c05Req(e *vEnv, ty hotline.TranType, fields ...hotline.Field) *hotline.Transaction {
	t := hotline.NewTransaction(ty, e.cc.ID, fields...)
	copy(t.ID[:], vBytesN("req.id", 4))
	return &t
}

func c05ReplyOK(e *vEnv, t *hotline.Transaction, res []hotline.Transaction) bool {
	for _, r := range res {
		if r.IsReply == 1 && r.ErrorCode == [4]byte{} {
			return r.ID == t.ID && r.ClientID == e.cc.ID
		}
	}
	return false
}


func c05PathMenu() []byte {
	switch vChoice("path_menu", 4) {
	case 0:
		return nil
	case 1:
		return vPathField("docs")
	case 2:
		return vPathField("Uploads")
	}
	return vPathField("x", "Drop Box")
}

// ---- files ----------------------------------------------------------------------------------------------------

func VH_C05_DeleteFile() {
	e := vNewEnv()
	t := c05Req(e, hotline.TranDeleteFile, c05Name, f(hotline.FieldFilePath, vPathField("docs")))
	res := HandleDeleteFile(e.cc, t)
	allowed := e.has(hotline.AccessDeleteFile)
	if e.fs.isDir {
		allowed = e.has(hotline.AccessDeleteFolder)
	}
	vCheckPriv("delete", e, res, len(e.fs.removed) > 0, allowed)
	if e.fs.exists && allowed {
		vAssert("delete_done_when_entitled", len(e.fs.removed) == 4 && c05ReplyOK(e, t, res))
	}
}

func VH_C05_MoveFile() {
	e := vNewEnv()
	t := c05Req(e, hotline.TranMoveFile, c05Name, f(hotline.FieldFilePath, vPathField("docs")), f(hotline.FieldFileNewPath, vPathField("dest")))
	res := HandleMoveFile(e.cc, t)
	allowed := e.has(hotline.AccessMoveFile)
	if e.fs.isDir {
		allowed = e.has(hotline.AccessMoveFolder)
	}
	vCheckPriv("move", e, res, len(e.fs.renamed) > 0, allowed)
	if e.fs.exists && allowed {
		vAssert("move_done_when_entitled", len(e.fs.renamed) == 4 && c05ReplyOK(e, t, res))
	}
}

func VH_C05_NewFolder() {
	e := vNewEnv()
	t := c05Req(e, hotline.TranNewFolder, f(hotline.FieldFileName, []byte("newdir")), f(hotline.FieldFilePath, vPathField("docs")))
	res := HandleNewFolder(e.cc, t)
	allowed := e.has(hotline.AccessCreateFolder)
	vCheckPriv("newfolder", e, res, len(e.fs.mkdirs) > 0, allowed)
	if allowed && !e.fs.exists {
		vAssert("newfolder_done_when_entitled", len(e.fs.mkdirs) == 1 && c05ReplyOK(e, t, res))
	}
	if e.fs.exists {
		vAssert("newfolder_never_replaces_existing", len(e.fs.mkdirs) == 0)
	}
}

func VH_C05_MakeAlias() {
	e := vNewEnv()
	t := c05Req(e, hotline.TranMakeFileAlias, c05Name, f(hotline.FieldFilePath, vPathField("docs")), f(hotline.FieldFileNewPath, vPathField("dest")))
	res := HandleMakeAlias(e.cc, t)
	allowed := e.has(hotline.AccessMakeAlias)
	vCheckPriv("alias", e, res, len(e.fs.links) > 0, allowed)
	if allowed {
		vAssert("alias_done_when_entitled", len(e.fs.links) == 1 && c05ReplyOK(e, t, res))
	}
}

func VH_C05_SetFileInfo_sym() {
	e := vNewEnv()
	vAssume(e.fs.exists)
	doComment, doRename := vBool("set_comment"), vBool("rename")
	fields := []hotline.Field{c05Name, f(hotline.FieldFilePath, vPathField("docs"))}
	if doComment {
		// every comment length 0..2: an empty comment field ("clear the comment") is a comment change too
		fields = append(fields, hotline.Field{Type: hotline.FieldFileComment, Data: vBytesEach("comment", 2)})
	}
	if doRename {
		fields = append(fields, f(hotline.FieldFileNewName, []byte("renamed.txt")))
	}
	t := c05Req(e, hotline.TranSetFileInfo, fields...)
	res := HandleSetFileInfo(e.cc, t)
	commentBit, renameBit := hotline.AccessSetFileComment, hotline.AccessRenameFile
	if e.fs.isDir {
		commentBit, renameBit = hotline.AccessSetFolderComment, hotline.AccessRenameFolder
	}
	commented := false
	for _, op := range vfsLog {
		if op.kind == "write" || op.kind == "append" {
			commented = true
		}
	}
	renamed := len(e.fs.renamed) > 0
	for _, op := range vfsLog {
		if op.kind == "rename" || op.kind == "failed:rename" {
			renamed = true
		}
	}
	if commented {
		vAssert("comment_effect_requires_privilege", e.has(commentBit))
	}
	if renamed {
		vAssert("rename_effect_requires_privilege", e.has(renameBit))
	}
	if vIsDenial(res) {
		vAssert("setinfo_denied_only_without_a_needed_privilege", (doComment && !e.has(commentBit)) || (doRename && !e.has(renameBit)))
		vAssert("setinfo_denial_single_reply", len(res) == 1 && res[0].ClientID == e.cc.ID)
	}
	if (!doComment || e.has(commentBit)) && (!doRename || e.has(renameBit)) {
		vAssert("setinfo_not_refused_when_entitled", !vIsDenial(res))
	}
}

func c05Transfer(e *vEnv, kind hotline.FileTransferType) int {
	n := 0
	for _, ft := range e.ftm.added {
		if ft.Type == kind {
			n++
		}
	}
	return n
}

func VH_C05_DownloadFile() {
	e := vNewEnv()
	t := c05Req(e, hotline.TranDownloadFile, c05Name, f(hotline.FieldFilePath, vPathField("docs")))
	res := HandleDownloadFile(e.cc, t)
	allowed := e.has(hotline.AccessDownloadFile)
	vCheckPriv("download", e, res, len(e.ftm.added) > 0, allowed)
	if allowed {
		vAssert("download_granted_when_entitled", c05Transfer(e, hotline.FileDownload) == 1 && c05ReplyOK(e, t, res))
	}
}

func VH_C05_DownloadFolder() {
	e := vNewEnv()
	t := c05Req(e, hotline.TranDownloadFldr, f(hotline.FieldFileName, []byte("docs")), f(hotline.FieldFilePath, vPathField("top")))
	res := HandleDownloadFolder(e.cc, t)
	allowed := e.has(hotline.AccessDownloadFolder)
	vCheckPriv("downloadfolder", e, res, len(e.ftm.added) > 0 || vWalks > 0, allowed)
	if allowed {
		vAssert("downloadfolder_granted_when_entitled", c05Transfer(e, hotline.FolderDownload) == 1 && c05ReplyOK(e, t, res))
	}
}

func c05UploadAllowed(e *vEnv, base int, menu int) bool {
	inUploadArea := menu == 2 || menu == 3
	return e.has(base) && (e.has(hotline.AccessUploadAnywhere) || inUploadArea)
}

func VH_C05_UploadFile() {
	e := vNewEnv()
	vAssume(!e.fs.exists)
	menu := vChoice("path_menu", 4)
	paths := [][]byte{nil, vPathField("docs"), vPathField("my uploads"), vPathField("x", "Drop Box")}
	fields := []hotline.Field{c05Name, f(hotline.FieldTransferSize, []byte{0, 0, 0, 9})}
	if paths[menu] != nil {
		fields = append(fields, f(hotline.FieldFilePath, paths[menu]))
	}
	t := c05Req(e, hotline.TranUploadFile, fields...)
	res := HandleUploadFile(e.cc, t)
	allowed := c05UploadAllowed(e, hotline.AccessUploadFile, menu)
	vCheckPriv("upload", e, res, len(e.ftm.added) > 0, allowed)
	if allowed {
		vAssert("upload_granted_when_entitled", c05Transfer(e, hotline.FileUpload) == 1 && c05ReplyOK(e, t, res))
	}
}

func VH_C05_UploadFolder() {
	e := vNewEnv()
	menu := vChoice("path_menu", 4)
	paths := [][]byte{nil, vPathField("docs"), vPathField("my uploads"), vPathField("x", "Drop Box")}
	fields := []hotline.Field{f(hotline.FieldFileName, []byte("dir")), f(hotline.FieldTransferSize, []byte{0, 0, 0, 9}), f(hotline.FieldFolderItemCount, []byte{0, 1})}
	if paths[menu] != nil {
		fields = append(fields, f(hotline.FieldFilePath, paths[menu]))
	}
	t := c05Req(e, hotline.TranUploadFldr, fields...)
	res := HandleUploadFolder(e.cc, t)
	allowed := c05UploadAllowed(e, hotline.AccessUploadFolder, menu)
	vCheckPriv("uploadfolder", e, res, len(e.ftm.added) > 0, allowed)
	if allowed {
		vAssert("uploadfolder_granted_when_entitled", c05Transfer(e, hotline.FolderUpload) == 1 && c05ReplyOK(e, t, res))
	}
}

func VH_C05_GetFileNameList() {
	e := vNewEnv()
	menu := vChoice("path_menu", 4)
	paths := [][]byte{nil, vPathField("docs"), vPathField("Uploads"), vPathField("x", "Drop Box")}
	var fields []hotline.Field
	if paths[menu] != nil {
		fields = append(fields, f(hotline.FieldFilePath, paths[menu]))
	}
	t := c05Req(e, hotline.TranGetFileNameList, fields...)
	res := HandleGetFileNameList(e.cc, t)
	allowed := menu != 3 || e.has(hotline.AccessViewDropBoxes)
	vCheckPriv("filelist", e, res, vListings > 0, allowed)
	if allowed {
		vAssert("filelist_served_when_entitled", vListings == 1 && c05ReplyOK(e, t, res))
	}
}

// ---- accounts -----------------------------------------------------------------------------------------------------

func VH_C05_DeleteUser() {
	e := vNewEnv()
	t := c05Req(e, hotline.TranDeleteUser, f(hotline.FieldUserLogin, []byte{0x9d, 0x90, 0x9d}))
	res := HandleDeleteUser(e.cc, t)
	allowed := e.has(hotline.AccessDeleteUser)
	vCheckPriv("deleteuser", e, res, len(e.am.deleted) > 0, allowed)
	if allowed {
		vAssert("deleteuser_done_when_entitled", len(e.am.deleted) == 1 && e.am.deleted[0] == "bob" && c05ReplyOK(e, t, res))
	}
}

func VH_C05_GetUser() {
	e := vNewEnv()
	t := c05Req(e, hotline.TranGetUser, f(hotline.FieldUserLogin, []byte("bob")))
	res := HandleGetUser(e.cc, t)
	allowed := e.has(hotline.AccessOpenUser)
	disclosed := len(res) == 1 && len(res[0].Fields) >= 3 && res[0].ErrorCode == [4]byte{}
	vCheckPriv("getuser", e, res, disclosed, allowed)
	if allowed {
		vAssert("getuser_served_when_entitled", disclosed && c05ReplyOK(e, t, res))
	}
}

func VH_C05_ListUsers() {
	e := vNewEnv()
	t := c05Req(e, hotline.TranListUsers)
	res := HandleListUsers(e.cc, t)
	allowed := e.has(hotline.AccessOpenUser)
	vCheckPriv("listusers", e, res, e.am.listCalls > 0, allowed)
	if allowed {
		vAssert("listusers_served_when_entitled", len(res) == 1 && len(res[0].Fields) == 1 && c05ReplyOK(e, t, res))
	}
}

func VH_C05_SetUser_sym() {
	e := vNewEnv()
	t := c05Req(e, hotline.TranSetUser, f(hotline.FieldUserLogin, []byte{0x9d, 0x90, 0x9d}), f(hotline.FieldUserName, []byte("B")), f(hotline.FieldUserAccess, make([]byte, 8)), f(hotline.FieldUserPassword, []byte{0}))
	res := HandleSetUser(e.cc, t)
	allowed := e.has(hotline.AccessModifyUser)
	vCheckPriv("setuser", e, res, len(e.am.updated) > 0, allowed)
	if allowed {
		vAssert("setuser_done_when_entitled", len(e.am.updated) == 1 && c05ReplyOK(e, t, res))
	}
}

func c05UpdateUserData(nsub int, parts ...[]byte) []byte {
	d := []byte{0, byte(nsub)}
	for _, p := range parts {
		d = append(d, p...)
	}
	return d
}

func VH_C05_UpdateUser() {
	e := vNewEnv()
	action := vChoice("action", 3) // 0 delete, 1 modify (account exists), 2 create (no such account)
	login := vSubField(hotline.FieldUserLogin, []byte{0x9d, 0x90, 0x9d})
	var data []byte
	switch action {
	case 0:
		data = c05UpdateUserData(1, vSubField(hotline.FieldData, []byte{0x9d, 0x90, 0x9d}))
	case 1:
		data = c05UpdateUserData(3, login, vSubField(hotline.FieldUserName, []byte("B")), vSubField(hotline.FieldUserPassword, []byte{0}))
	default:
		e.am.getResult = nil
		data = c05UpdateUserData(4, login, vSubField(hotline.FieldUserName, []byte("B")), vSubField(hotline.FieldUserPassword, []byte("p")), vSubField(hotline.FieldUserAccess, make([]byte, 8)))
	}
	t := c05Req(e, hotline.TranUpdateUser, f(hotline.FieldData, data))
	res := HandleUpdateUser(e.cc, t)
	switch action {
	case 0:
		vCheckPriv("updateuser_delete", e, res, len(e.am.deleted) > 0, e.has(hotline.AccessDeleteUser))
		vAssert("updateuser_delete_only_deletes", len(e.am.updated) == 0 && len(e.am.created) == 0)
	case 1:
		vCheckPriv("updateuser_modify", e, res, len(e.am.updated) > 0, e.has(hotline.AccessModifyUser))
		vAssert("updateuser_modify_only_updates", len(e.am.deleted) == 0 && len(e.am.created) == 0)
	default:
		vCheckPriv("updateuser_create", e, res, len(e.am.created) > 0, e.has(hotline.AccessCreateUser))
		vAssert("updateuser_create_only_creates", len(e.am.deleted) == 0 && len(e.am.updated) == 0)
	}
}

// ---- news -------------------------------------------------------------------------------------------------------

var c05NewsPath = f(hotline.FieldNewsPath, []byte{0, 1, 0, 0, 3, 'c', 'a', 't'})

func VH_C05_News() {
	e := vNewEnv()
	which := vChoice("news_request", 9)
	artID := f(hotline.FieldNewsArtID, []byte{0, 1})
	switch which {
	case 0:
		t := c05Req(e, hotline.TranGetNewsCatNameList, c05NewsPath)
		res := HandleGetNewsCatNameList(e.cc, t)
		vCheckPriv("news_categories", e, res, e.news.catLists > 0, e.has(hotline.AccessNewsReadArt))
		if e.has(hotline.AccessNewsReadArt) {
			vAssert("news_categories_served", e.news.catLists == 1 && c05ReplyOK(e, t, res))
		}
	case 1:
		t := c05Req(e, hotline.TranGetNewsArtNameList, c05NewsPath)
		res := HandleGetNewsArtNameList(e.cc, t)
		vCheckPriv("news_article_list", e, res, e.news.lists > 0, e.has(hotline.AccessNewsReadArt))
		if e.has(hotline.AccessNewsReadArt) {
			vAssert("news_article_list_served", e.news.lists == 1 && c05ReplyOK(e, t, res))
		}
	case 2:
		t := c05Req(e, hotline.TranGetNewsArtData, c05NewsPath, artID)
		res := HandleGetNewsArtData(e.cc, t)
		vCheckPriv("news_article", e, res, e.news.gets > 0, e.has(hotline.AccessNewsReadArt))
		if e.has(hotline.AccessNewsReadArt) {
			vAssert("news_article_served", e.news.gets == 1 && c05ReplyOK(e, t, res))
		}
	case 3:
		t := c05Req(e, hotline.TranPostNewsArt, c05NewsPath, artID, f(hotline.FieldNewsArtTitle, []byte("t")), f(hotline.FieldNewsArtData, []byte("d")))
		res := HandlePostNewsArt(e.cc, t)
		vCheckPriv("news_post", e, res, e.news.posts > 0, e.has(hotline.AccessNewsPostArt))
		if e.has(hotline.AccessNewsPostArt) {
			vAssert("news_post_done", e.news.posts == 1 && c05ReplyOK(e, t, res))
		}
	case 4:
		t := c05Req(e, hotline.TranDelNewsArt, c05NewsPath, artID)
		res := HandleDelNewsArt(e.cc, t)
		vCheckPriv("news_delete_article", e, res, e.news.deletedArts > 0, e.has(hotline.AccessNewsDeleteArt))
		if e.has(hotline.AccessNewsDeleteArt) {
			vAssert("news_delete_article_done", e.news.deletedArts == 1 && c05ReplyOK(e, t, res))
		}
	case 5:
		t := c05Req(e, hotline.TranNewNewsCat, c05NewsPath, f(hotline.FieldNewsCatName, []byte("c")))
		res := HandleNewNewsCat(e.cc, t)
		vCheckPriv("news_create_category", e, res, e.news.createdCats+e.news.createdBundles > 0, e.has(hotline.AccessNewsCreateCat))
		if e.has(hotline.AccessNewsCreateCat) {
			vAssert("news_create_category_done", e.news.createdCats == 1 && e.news.createdBundles == 0 && c05ReplyOK(e, t, res))
		}
	case 6:
		t := c05Req(e, hotline.TranNewNewsFldr, c05NewsPath, f(hotline.FieldFileName, []byte("b")))
		res := HandleNewNewsFldr(e.cc, t)
		vCheckPriv("news_create_bundle", e, res, e.news.createdCats+e.news.createdBundles > 0, e.has(hotline.AccessNewsCreateFldr))
		if e.has(hotline.AccessNewsCreateFldr) {
			vAssert("news_create_bundle_done", e.news.createdBundles == 1 && e.news.createdCats == 0 && c05ReplyOK(e, t, res))
		}
	case 7:
		t := c05Req(e, hotline.TranDelNewsItem, c05NewsPath)
		res := HandleDelNewsItem(e.cc, t)
		bit := hotline.AccessNewsDeleteFldr
		if e.news.itemIsCategory {
			bit = hotline.AccessNewsDeleteCat
		}
		vCheckPriv("news_delete_item", e, res, e.news.deletedItems > 0, e.has(bit))
		if e.has(bit) {
			vAssert("news_delete_item_done", e.news.deletedItems == 1 && c05ReplyOK(e, t, res))
		}
	default:
		t := c05Req(e, hotline.TranGetMsgs)
		res := HandleGetMsgs(e.cc, t)
		vCheckPriv("board_read", e, res, e.board.reads > 0, e.has(hotline.AccessNewsReadArt))
		if e.has(hotline.AccessNewsReadArt) {
			vAssert("board_read_served", e.board.reads >= 1 && c05ReplyOK(e, t, res))
		}
	}
}

// ---- messaging / users -------------------------------------------------------------------------------------------

func c05ToOthers(e *vEnv, res []hotline.Transaction, ty hotline.TranType) int {
	n := 0
	for _, t := range res {
		if t.ClientID != e.cc.ID && t.Type == ty {
			n++
		}
	}
	return n
}

func VH_C05_Messaging() {
	e := vNewEnv()
	which := vChoice("msg_request", 5)
	target := f(hotline.FieldUserID, e.other.ID[:])
	switch which {
	case 0:
		t := c05Req(e, hotline.TranSendInstantMsg, target, f(hotline.FieldData, []byte("hi")))
		res := HandleSendInstantMsg(e.cc, t)
		vCheckPriv("private_message", e, res, c05ToOthers(e, res, hotline.TranServerMsg) > 0, e.has(hotline.AccessSendPrivMsg))
		if e.has(hotline.AccessSendPrivMsg) {
			vAssert("private_message_delivered", c05ToOthers(e, res, hotline.TranServerMsg) == 1 && c05ReplyOK(e, t, res))
		}
	case 1:
		t := c05Req(e, hotline.TranInviteNewChat, target)
		res := HandleInviteNewChat(e.cc, t)
		vCheckPriv("open_chat", e, res, c05ToOthers(e, res, hotline.TranInviteToChat) > 0, e.has(hotline.AccessOpenChat))
		if e.has(hotline.AccessOpenChat) {
			vAssert("open_chat_invites", c05ToOthers(e, res, hotline.TranInviteToChat) == 1 && c05ReplyOK(e, t, res))
		}
	case 2:
		t := c05Req(e, hotline.TranInviteToChat, target, f(hotline.FieldChatID, []byte{0, 0, 0, 5}))
		res := HandleInviteToChat(e.cc, t)
		vCheckPriv("invite_to_chat", e, res, c05ToOthers(e, res, hotline.TranInviteToChat) > 0, e.has(hotline.AccessOpenChat))
		if e.has(hotline.AccessOpenChat) {
			vAssert("invite_to_chat_invites", c05ToOthers(e, res, hotline.TranInviteToChat) == 1 && c05ReplyOK(e, t, res))
		}
	case 3:
		t := c05Req(e, hotline.TranGetClientInfoText, target)
		res := HandleGetClientInfoText(e.cc, t)
		disclosed := len(res) == 1 && res[0].ErrorCode == [4]byte{} && len(res[0].Fields) == 2
		vCheckPriv("client_info", e, res, disclosed, e.has(hotline.AccessGetClientInfo))
		if e.has(hotline.AccessGetClientInfo) {
			vAssert("client_info_served", disclosed && c05ReplyOK(e, t, res))
		}
	default:
		e.other.Account.Access = hotline.AccessBitmap{} // an ordinary target
		t := c05Req(e, hotline.TranDisconnectUser, target)
		res := HandleDisconnectUser(e.cc, t)
		vCheckPriv("disconnect", e, res, vSpawnCount() > 0 || len(e.ban.added) > 0, e.has(hotline.AccessDisconUser))
		if e.has(hotline.AccessDisconUser) {
			vAssert("disconnect_done", vSpawnCount() == 1 && c05ReplyOK(e, t, res))
		}
	}
}

// any-name privilege: the client-supplied display name is adopted iff the account may use any name; never an error
func VH_C05_AnyName() {
	e := vNewEnv()
	newName := []byte("Sneaky")
	if vBool("via_agreed") {
		t := c05Req(e, hotline.TranAgreed, f(hotline.FieldUserName, newName), f(hotline.FieldUserIconID, []byte{0, 5}), f(hotline.FieldOptions, []byte{0, 0}))
		res := HandleTranAgreed(e.cc, t)
		vAssert("agreed_no_error", !vIsErrReply(res) && c05ReplyOK(e, t, res))
		if e.has(hotline.AccessAnyName) {
			vAssert("agreed_name_adopted_with_privilege", string(e.cc.UserName) == "Sneaky")
		} else {
			vAssert("agreed_name_not_adopted_without_privilege", string(e.cc.UserName) == "me")
		}
		return
	}
	t := c05Req(e, hotline.TranSetClientUserInfo, f(hotline.FieldUserName, newName), f(hotline.FieldUserIconID, []byte{0, 5}))
	res := HandleSetClientUserInfo(e.cc, t)
	vAssert("setinfo_no_error", !vIsErrReply(res))
	if e.has(hotline.AccessAnyName) {
		vAssert("name_adopted_with_privilege", string(e.cc.UserName) == "Sneaky")
	} else {
		vAssert("name_not_adopted_without_privilege", string(e.cc.UserName) == "me")
	}
}

// requests the protocol attaches no privilege to are never refused for lack of privilege
func VH_C05_Unprivileged() {
	e := vNewEnv()
	switch vChoice("request", 3) {
	case 0:
		t := c05Req(e, hotline.TranKeepAlive)
		res := HandleKeepAlive(e.cc, t)
		vAssert("keepalive_answered", !vIsDenial(res) && c05ReplyOK(e, t, res))
	case 1:
		t := c05Req(e, hotline.TranGetUserNameList)
		res := HandleGetUserNameList(e.cc, t)
		vAssert("userlist_answered", !vIsDenial(res) && c05ReplyOK(e, t, res) && len(res[0].Fields) == 2)
	default:
		t := c05Req(e, hotline.TranDownloadBanner)
		res := HandleDownloadBanner(e.cc, t)
		vAssert("banner_answered", !vIsDenial(res) && c05ReplyOK(e, t, res))
	}
}

// broadcast and message-board post reach every user through the server's outbox (counted as channel sends)
func VH_C05_BroadcastAndPost_sym() {
	e := vNewEnv()
	if vBool("broadcast") {
		t := c05Req(e, hotline.TranUserBroadcast, f(hotline.FieldData, []byte("all hands")))
		res := HandleUserBroadcast(e.cc, t)
		allowed := e.has(hotline.AccessBroadcast)
		vCheckPriv("broadcast", e, res, vSendCount() > 0, allowed)
		if allowed {
			vAssert("broadcast_reaches_every_user", vSendCount() == 2 && c05ReplyOK(e, t, res))
		}
		return
	}
	t := c05Req(e, hotline.TranOldPostNews, f(hotline.FieldData, []byte("news!")))
	res := HandleTranOldPostNews(e.cc, t)
	allowed := e.has(hotline.AccessNewsPostArt)
	vCheckPriv("board_post", e, res, e.board.writes > 0 || vSendCount() > 0, allowed)
	if allowed {
		vAssert("board_post_written_and_announced", e.board.writes == 1 && vSendCount() == 2 && c05ReplyOK(e, t, res))
	}
}

// chat: a line (public, or into a private chat the requester is a member of) reaches others only with send-chat
func VH_C05_ChatSend() {
	e := vNewEnv()
	private := vBool("private_chat")
	fields := []hotline.Field{f(hotline.FieldData, []byte("hello"))}
	if private {
		// the other user opened the chat and the requester joined it (joining needs no privilege)
		chat := e.srv.ChatMgr.New(e.other)
		vAssume(chat != hotline.ChatID{})
		e.srv.ChatMgr.Join(chat, e.cc)
		fields = append(fields, f(hotline.FieldChatID, chat[:]))
	} else {
		e.other.Account.Access = hotline.AccessBitmap{0xff, 0xff, 0xff, 0xff, 0xff, 0xff, 0xff, 0xff}
	}
	t := c05Req(e, hotline.TranChatSend, fields...)
	res := HandleChatSend(e.cc, t)
	allowed := e.has(hotline.AccessSendChat)
	vCheckPriv("chat_send", e, res, c05ToOthers(e, res, hotline.TranChatMsg) > 0, allowed)
	if allowed {
		vAssert("chat_line_delivered_when_entitled", c05ToOthers(e, res, hotline.TranChatMsg) == 1)
	}
}

// An account edit governs every later request of every connected session of that account, whichever session it is
// (three sessions of the edited account, the edit made by somebody else): broadcast is executed iff the account's
// new privileges allow it.
func VH_C05_EditedAccountGovernsAllItsSessions() {
	e := vNewEnv()
	vAssume(e.has(hotline.AccessModifyUser))
	s := []*hotline.ClientConn{vNewClient(e.srv, "bob"), vNewClient(e.srv, "bob"), vNewClient(e.srv, "bob")}
	e.am.getResult = &hotline.Account{Login: "bob", Name: "Bob", Password: "H:zzold", Access: s[0].Account.Access}
	// a session of a different account whose login differs from the edited one only in case
	bigBob := vNewClient(e.srv, "BOB")
	bigBobAccess := bigBob.Account.Access
	newAccess := vBytesN("access_after_edit", 8)
	st := hotline.NewTransaction(hotline.TranSetUser, e.cc.ID, f(hotline.FieldUserLogin, []byte{0x9d, 0x90, 0x9d}), f(hotline.FieldUserName, []byte("Bob")),
		f(hotline.FieldUserAccess, newAccess), f(hotline.FieldUserPassword, []byte{0}))
	sres := HandleSetUser(e.cc, &st)
	vAssert("sessions_of_other_accounts_keep_their_privileges", bigBob.Account.Access == bigBobAccess)
	for _, r := range sres {
		vAssert("sessions_of_other_accounts_are_not_told_a_new_access", !(r.Type == hotline.TranUserAccess && r.ClientID == bigBob.ID))
	}
	var want hotline.AccessBitmap
	copy(want[:], newAccess)
	k := vChoice("session", 3)
	before := vSendCount()
	t := hotline.NewTransaction(hotline.TranUserBroadcast, s[k].ID, f(hotline.FieldData, []byte("hi")))
	res := HandleUserBroadcast(s[k], &t)
	sent := vSendCount() > before
	for _, r := range res {
		if r.ClientID != s[k].ID {
			sent = true
		}
	}
	vAssert("broadcast_after_edit_requires_the_new_privilege", !sent || vBit(want, hotline.AccessBroadcast))
	vAssert("broadcast_after_edit_not_refused_with_the_new_privilege", !vBit(want, hotline.AccessBroadcast) || !vIsDenial(res))
}
