package mobius

import (
	"errors"
	"io"
	"log/slog"
	"os"
	"path/filepath"
	"strings"
	"sync"
	"time"

	"github.com/jhalter/mobius/hotline"
)

// ---- environment stubs shared by the mobius harnesses ---------------------------------------------

// bcrypt contract: hash = "H:" ++ salt(2 arbitrary bytes) ++ password (a deterministic stand-in for H(p, salt));
// Compare(h, p) == nil  <=>  h = "H:" ++ any 2 bytes ++ p.  Both are engine-only replacements (native replay uses real bcrypt).
func vStub_bcrypt_GenerateFromPassword(password []byte, cost int) ([]byte, error) {
	salt := vBytesN("bcrypt.salt", 2) // every hash is salted: two hashes of one password differ as strings
	return append(append([]byte("H:"), salt...), password...), nil
}

func vStub_bcrypt_CompareHashAndPassword(hashedPassword, password []byte) error {
	if vIsHashOf(string(hashedPassword), string(password)) {
		return nil
	}
	return errors.New("mismatch")
}

// vStubAM is a recording AccountManager. Behaviour is configured by the harness.
type vStubAM struct {
	getResult2 *hotline.Account // a second account (looked up by its login)
	getResult  *hotline.Account
	getCalls   []string
	created    []hotline.Account
	updated    []hotline.Account
	updatedNew []string
	deleted    []string
	createErr  error
	updateErr  error
	deleteErr  error
	list       []hotline.Account
	listCalls  int
}

func (m *vStubAM) Create(a hotline.Account) error {
	m.created = append(m.created, a)
	return m.createErr
}
func (m *vStubAM) Update(a hotline.Account, newLogin string) error {
	m.updated = append(m.updated, a)
	m.updatedNew = append(m.updatedNew, newLogin)
	return m.updateErr
}
func (m *vStubAM) Get(login string) *hotline.Account {
	m.getCalls = append(m.getCalls, login)
	if m.getResult != nil && m.getResult.Login == login {
		return m.getResult
	}
	if m.getResult2 != nil && m.getResult2.Login == login {
		return m.getResult2
	}
	return nil
}
func (m *vStubAM) List() []hotline.Account {
	m.listCalls++
	return m.list
}
func (m *vStubAM) Delete(login string) error {
	m.deleted = append(m.deleted, login)
	return m.deleteErr
}

// vStubBan is a recording ban list.
type vStubBan struct {
	added      []string
	addedUntil []*time.Time
	banned     bool
	until      *time.Time
}

func (b *vStubBan) Add(ip string, until *time.Time) error {
	b.added = append(b.added, ip)
	b.addedUntil = append(b.addedUntil, until)
	return nil
}
func (b *vStubBan) IsBanned(ip string) (bool, *time.Time) { return b.banned, b.until }

// vConn is a recording connection.
type vConn struct {
	closed int
	writes [][]byte
}

func (c *vConn) Read(p []byte) (int, error) { return 0, errors.New("vConn: no input") }
func (c *vConn) Write(p []byte) (int, error) {
	c.writes = append(c.writes, append([]byte(nil), p...))
	return len(p), nil
}
func (c *vConn) Close() error { c.closed++; return nil }

func vAccess(name string) hotline.AccessBitmap {
	var b hotline.AccessBitmap
	copy(b[:], vBytesN(name, 8))
	return b
}

// vBit: privilege i of the wire bitmap (bit i from the MSB of byte 0).
func vBit(b hotline.AccessBitmap, i int) bool { return b[i/8]&(0x80>>uint(i%8)) != 0 }

// vNewServer builds a server with the real in-memory managers and a requester with an arbitrary bitmap.
// a real logger that discards (logging is a no-op in the symbolic run)
func vLogger() *slog.Logger { return slog.New(slog.NewTextHandler(io.Discard, nil)) }

func vNewServer() (*hotline.Server, *hotline.ClientConn) {
	srv, _ := hotline.NewServer()
	srv.Logger = vLogger()
	cc := vNewClient(srv, "me")
	return srv, cc
}

func vNewClient(srv *hotline.Server, name string) *hotline.ClientConn {
	cc := &hotline.ClientConn{
		Connection: &vConn{},
		Server:     srv,
		Account:    &hotline.Account{Login: name, Name: name, Access: vAccess(name + ".access")},
		UserName:   []byte(name),
		RemoteAddr: "10.0.0.1:5500",
		Icon:       []byte{0, 1},
		Logger:     vLogger(),
	}
	srv.ClientMgr.Add(cc)
	return cc
}

func vIsErrReply(res []hotline.Transaction) bool {
	return len(res) == 1 && res[0].IsReply == 1 && res[0].ErrorCode == [4]byte{0, 0, 0, 1}
}

// ---- in-harness file system model (engine-only replacement of the os functions the stores call) -----------------

type vFSOp struct {
	kind string // "write" (create/truncate + write + close), "rename", "remove"
	name string
	to   string
	data []byte
	locks int // how many locks the caller held when it made this call
}

type vFSState struct {
	names []string
	data  [][]byte
}

var vfs = &vFSState{}
var vfsLog []vFSOp
var vfsFailNext = -1 // index of the operation that fails (never, when negative)

func (s *vFSState) find(name string) int {
	for i, n := range s.names {
		if n == name {
			return i
		}
	}
	return -1
}
func (s *vFSState) put(name string, d []byte) {
	for i := range s.names {
		if s.names[i] == name {
			s.data[i] = d
			return
		}
	}
	s.names = append(s.names, name)
	s.data = append(s.data, d)
}
func (s *vFSState) del(name string) {
	for i := range s.names {
		if s.names[i] == name {
			s.names = append(s.names[:i:i], s.names[i+1:]...)
			s.data = append(s.data[:i:i], s.data[i+1:]...)
			return
		}
	}
}
func (s *vFSState) clone() *vFSState {
	return &vFSState{names: append([]string(nil), s.names...), data: append([][]byte(nil), s.data...)}
}

func vfsReset() {
	vfs = &vFSState{}
	vfsLog = nil
	vfsFailNext = -1
}

func vfsApply(s *vFSState, op vFSOp) {
	switch op.kind {
	case "write":
		s.put(op.name, op.data)
	case "rename":
		for i := range s.names {
			if s.names[i] == op.name {
				d := s.data[i]
				s.del(op.name)
				s.put(op.to, d)
				break
			}
		}
	case "remove":
		s.del(op.name)
	}
}

func vfsDo(op vFSOp) error {
	if len(vfsLog) == vfsFailNext {
		vfsLog = append(vfsLog, vFSOp{kind: "failed:" + op.kind, name: op.name})
		return errors.New("vfs: injected failure")
	}
	if (op.kind == "rename" || op.kind == "remove") && vfs.find(op.name) < 0 {
		// the attempt is still a file-system access with client-controlled paths: keep it in the log
		vfsLog = append(vfsLog, vFSOp{kind: "failed:" + op.kind, name: op.name, to: op.to})
		return os.ErrNotExist
	}
	op.locks = vLocksHeld
	vfsLog = append(vfsLog, op)
	vfsApplyAny(vfs, op)
	return nil
}

func vStub_os_WriteFile(name string, data []byte, perm os.FileMode) error {
	return vfsDo(vFSOp{kind: "write", name: name, data: append([]byte(nil), data...)})
}
func vStub_os_Rename(oldpath, newpath string) error {
	// the system temporary directory is its own filesystem (tmpfs, a separate volume): rename(2) does not cross it
	if strings.HasPrefix(oldpath, "/tmp/") != strings.HasPrefix(newpath, "/tmp/") {
		vfsLog = append(vfsLog, vFSOp{kind: "failed:rename", name: oldpath, to: newpath})
		return errors.New("invalid cross-device link")
	}
	return vfsDo(vFSOp{kind: "rename", name: oldpath, to: newpath})
}

func vStub_os_TempDir() string { return "/tmp" }

func vStub_os_CreateTemp(dir, pattern string) (*os.File, error) {
	if dir == "" {
		dir = "/tmp"
	}
	name := dir + "/" + strings.Replace(pattern, "*", "4711", 1)
	if err := vfsDo(vFSOp{kind: "write", name: name, data: []byte{}}); err != nil {
		return nil, err
	}
	f := new(os.File)
	vOpenFiles[f] = name
	vOpenPos[f] = 0
	vOpenAppend[f] = false
	return f, nil
}

func vStub_os_File_Name(f *os.File) string { return vOpenFiles[f] }
func vStub_os_Remove(name string) error { return vfsDo(vFSOp{kind: "remove", name: name}) }
func vStub_os_ReadFile(name string) ([]byte, error) {
	if i := vfs.find(name); i >= 0 {
		return append([]byte(nil), vfs.data[i]...), nil
	}
	return nil, os.ErrNotExist
}

var c20Marshalled []byte

// yaml contract (engine-only): Marshal returns some non-empty byte string (documents are never empty).
func vStub_yaml_Marshal(in interface{}) ([]byte, error) {
	b := vBytes("yaml.doc", 400)
	vAssume(len(b) >= 1)
	// an account document records its login (so a file whose content names another login is detectable)
	switch a := in.(type) {
	case *hotline.Account:
		b = append([]byte("Login: "+a.Login+"\n"), b...)
	case hotline.Account:
		b = append([]byte("Login: "+a.Login+"\n"), b...)
	}
	c20Marshalled = b
	return b, nil
}

// *os.File as used by the account manager: create-exclusive, write, close.
var vOpenFiles = map[*os.File]string{}
var vOpenPos = map[*os.File]int{}
var vOpenAppend = map[*os.File]bool{}

func vStub_os_OpenFile(name string, flag int, perm os.FileMode) (*os.File, error) {
	if flag&os.O_CREATE != 0 {
		if flag&os.O_EXCL != 0 && vfs.find(name) >= 0 {
			return nil, os.ErrExist
		}
		if vfs.find(name) < 0 || flag&os.O_TRUNC != 0 {
			if err := vfsDo(vFSOp{kind: "write", name: name, data: []byte{}}); err != nil {
				return nil, err
			}
		}
	} else if vfs.find(name) < 0 {
		return nil, os.ErrNotExist
	}
	f := new(os.File)
	vOpenFiles[f] = name
	vOpenPos[f] = 0
	vOpenAppend[f] = flag&os.O_APPEND != 0
	return f, nil
}

func vStub_os_File_Write(f *os.File, b []byte) (int, error) {
	name := vOpenFiles[f]
	var cur []byte
	for i := range vfs.names {
		if vfs.names[i] == name {
			cur = vfs.data[i]
		}
	}
	pos := vOpenPos[f]
	if vOpenAppend[f] {
		pos = len(cur)
	}
	// bytes before pos are kept, b is written at pos, anything of the old content beyond pos+len(b) stays
	nd := append(append([]byte(nil), cur[:pos]...), b...)
	if pos+len(b) < len(cur) {
		nd = append(nd, cur[pos+len(b):]...)
	}
	vOpenPos[f] = pos + len(b)
	if err := vfsDo(vFSOp{kind: "append", name: name, data: nd, to: ""}); err != nil {
		return 0, err
	}
	return len(b), nil
}

func vStub_os_File_Sync(f *os.File) error { return nil }

func vStub_os_File_Close(f *os.File) error { return nil }

// vfsCrashState: the on-disk state if the process dies before operation k completes. A write/append in flight
// (operation k itself) has created/truncated the file and written an arbitrary proper prefix of its data
// (for an append: the old content plus a proper prefix of the added bytes).
func vfsCrashState(initial *vFSState, log []vFSOp, k int, partial int) *vFSState {
	s := initial.clone()
	for i, op := range log {
		if i < k {
			vfsApplyAny(s, op)
			continue
		}
		if i == k {
			switch op.kind {
			case "write":
				s.put(op.name, op.data[:partial])
			case "append":
				old := 0
				if j := s.find(op.name); j >= 0 {
					old = len(s.data[j])
				}
				s.put(op.name, op.data[:old+partial])
			}
		}
		break
	}
	return s
}

func vfsApplyAny(s *vFSState, op vFSOp) {
	if op.kind == "append" {
		s.put(op.name, op.data)
		return
	}
	vfsApply(s, op)
}

func vSubField(id [2]byte, data []byte) []byte {
	out := []byte{id[0], id[1], byte(len(data) >> 8), byte(len(data))}
	return append(out, data...)
}


// ---- lock tracking (engine-only replacement of sync.Mutex / sync.RWMutex) ------------------------------------------
// Lock/Unlock count the locks held; a harness may also install vLockHook to play another client's complete
// operation right before a lock is granted.
var vLocksHeld int
var vLockHook func()

func vStub_sync_Mutex_Lock(m *sync.Mutex) {
	if vLockHook != nil {
		h := vLockHook
		vLockHook = nil
		h()
	}
	vLocksHeld++
}
func vStub_sync_Mutex_Unlock(m *sync.Mutex)      { vLocksHeld-- }
func vStub_sync_RWMutex_Lock(m *sync.RWMutex)    { vLocksHeld++ }
func vStub_sync_RWMutex_Unlock(m *sync.RWMutex)  { vLocksHeld-- }
func vStub_sync_RWMutex_RLock(m *sync.RWMutex)   { vLocksHeld++ }
func vStub_sync_RWMutex_RUnlock(m *sync.RWMutex) { vLocksHeld-- }

// TryLock / TryRLock can fail whenever another client holds the lock: both outcomes are explored.
func vStub_sync_Mutex_TryLock(m *sync.Mutex) bool {
	if vBool("trylock_succeeds") {
		vLocksHeld++
		return true
	}
	return false
}
func vStub_sync_RWMutex_TryLock(m *sync.RWMutex) bool {
	if vBool("trylock_succeeds") {
		vLocksHeld++
		return true
	}
	return false
}
func vStub_sync_RWMutex_TryRLock(m *sync.RWMutex) bool {
	if vBool("trylock_succeeds") {
		vLocksHeld++
		return true
	}
	return false
}

// filepath.Glob as the account loader uses it (pattern <dir>/*.yaml): every name of the file model directly inside
// <dir> that ends in .yaml - '*' matches any run of non-separator bytes, a leading dot included.
func vStub_filepath_Glob(pattern string) ([]string, error) {
	dir := filepath.Dir(pattern)
	var out []string
	for _, n := range vfs.names {
		if filepath.Dir(n) == dir && strings.HasSuffix(filepath.Base(n), ".yaml") {
			out = append(out, n)
		}
	}
	return out, nil
}

// yaml.Unmarshal of an account document of the file model: the login recorded in its first line ("Login: x\n").
func vStub_yaml_Unmarshal(in []byte, out interface{}) error {
	a, ok := out.(*hotline.Account)
	if !ok {
		return nil
	}
	const pre = "Login: "
	if len(in) < len(pre) || string(in[:len(pre)]) != pre {
		return errors.New("not an account document")
	}
	end := len(pre)
	for end < len(in) && in[end] != '\n' {
		end++
	}
	a.Login = string(in[len(pre):end])
	a.Name = "loaded"
	return nil
}

// vIsHashOf: h is a (stub) hash of pw, whatever its salt.
func vIsHashOf(h, pw string) bool {
	return len(h) >= 4 && h[0] == 'H' && h[1] == ':' && h[4:] == pw
}
