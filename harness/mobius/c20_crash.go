package mobius

import (
	"time"

	"github.com/jhalter/mobius/hotline"
)

// c20Crash picks an arbitrary crash point (operation index k, 0..len(log); k == len(log) = after the update)
// and an arbitrary proper-prefix length for the write in flight, and returns the disk state at that instant.
func c20Crash(initial *vFSState) *vFSState {
	k := vInt("crash_at")
	vAssume(0 <= k && k <= len(vfsLog))
	partial := vInt("partial_len")
	vAssume(partial >= 0)
	for i, op := range vfsLog {
		if i == k && (op.kind == "write" || op.kind == "append") {
			// proper prefix of the bytes this operation adds
			added := len(op.data)
			if op.kind == "append" {
				if j := initial.find(op.name); j >= 0 {
					added -= len(initial.data[j])
				}
			}
			vAssume(partial < added || added == 0 && partial == 0)
		}
	}
	return vfsCrashState(initial, vfsLog, k, partial)
}

// Message board post: at every crash point the board file holds the complete old or the complete new text.
func VH_C20_FlatNewsWrite_sym() {
	vfsReset()
	old := vBytes("old", 200)
	vAssume(len(old) >= 1)
	vfs.put("/cfg/MessageBoard.txt", old)
	initial := vfs.clone()
	f := &FlatNews{data: append([]byte(nil), old...), filePath: "/cfg/MessageBoard.txt"}
	post := vBytes("post", 100)
	vAssume(len(post) >= 1)
	_, err := f.Write(post)
	vAssert("write_ok", err == nil)
	want := append(append([]byte(nil), post...), old...)
	s := c20Crash(initial)
	i := s.find("/cfg/MessageBoard.txt")
	vAssert("board_file_exists_at_crash", i >= 0)
	if i >= 0 {
		vAssertEqBytesEither("board_old_or_new_at_crash", s.data[i], old, want)
	}
}

// Threaded news save (temp file + rename).
func VH_C20_ThreadedNewsWrite_sym() {
	vfsReset()
	old := vBytes("old", 200)
	vAssume(len(old) >= 1)
	vfs.put("/cfg/ThreadedNews.yaml", old)
	if vBool("stale_temp_file_from_earlier_crash") {
		vfs.put("/cfg/ThreadedNews.yaml.tmp", vBytes("stale_tmp", 500))
	}
	initial := vfs.clone()
	n := &ThreadedNewsYAML{filePath: "/cfg/ThreadedNews.yaml"}
	err := n.writeFile()
	vAssert("write_ok", err == nil)
	vAssert("log_nonempty", len(vfsLog) >= 1)
	newDoc := c20Marshalled
	s := c20Crash(initial)
	i := s.find("/cfg/ThreadedNews.yaml")
	vAssert("news_file_exists_at_crash", i >= 0)
	if i >= 0 {
		vAssertEqBytesEither("news_old_or_new_at_crash", s.data[i], old, newDoc)
	}
	// acknowledged => on disk
	j := vfs.find("/cfg/ThreadedNews.yaml")
	vAssert("acknowledged_is_on_disk", j >= 0)
	vAssertEqBytes("acknowledged_content", vfs.data[j], newDoc)
}

func c20Account(login string) hotline.Account {
	return hotline.Account{Login: login, Name: "n", Password: "H:zz"}
}

// Account edit without rename.
func VH_C20_AccountUpdate_sym() {
	vfsReset()
	old := vBytes("old", 200)
	vAssume(len(old) >= 1)
	vfs.put("/cfg/Users/bob.yaml", old)
	if vBool("stale_temp_file_from_earlier_crash") {
		vfs.put("/cfg/Users/bob.yaml.tmp", vBytes("stale_tmp", 500))
	}
	initial := vfs.clone()
	am := &YAMLAccountManager{accountDir: "/cfg/Users", accounts: map[string]hotline.Account{"bob": c20Account("bob")}}
	err := am.Update(c20Account("bob"), "bob")
	vAssert("update_ok", err == nil)
	newDoc := c20Marshalled
	if j := vfs.find("/cfg/Users/bob.yaml"); true {
		vAssert("acknowledged_update_is_on_disk", j >= 0)
		if j >= 0 {
			vAssertEqBytes("acknowledged_account_file_is_the_new_document", vfs.data[j], newDoc)
		}
	}
	s := c20Crash(initial)
	c20NoPartialAccountFile(s, old, newDoc)
	i := s.find("/cfg/Users/bob.yaml")
	vAssert("account_file_exists_at_crash", i >= 0)
	if i >= 0 {
		vAssertEqBytesEither("account_update_old_or_new_at_crash", s.data[i], old, newDoc)
	}
}

// Account rename: at every crash point exactly one of the two files exists and it is complete.
func VH_C20_AccountRename_sym() {
	vfsReset()
	old := vBytes("old", 200)
	vAssume(len(old) >= 1)
	vfs.put("/cfg/Users/bob.yaml", old)
	initial := vfs.clone()
	am := &YAMLAccountManager{accountDir: "/cfg/Users", accounts: map[string]hotline.Account{"bob": c20Account("bob")}}
	err := am.Update(c20Account("bob"), "rob")
	vAssert("rename_ok", err == nil)
	newDoc := c20LastWritten()
	s := c20Crash(initial)
	c20NoPartialAccountFile(s, old, newDoc)
	i, j := s.find("/cfg/Users/bob.yaml"), s.find("/cfg/Users/rob.yaml")
	vAssert("rename_exactly_one_file_at_crash", (i >= 0) != (j >= 0))
	if i >= 0 {
		vAssertEqBytes("rename_old_file_complete", s.data[i], old)
	}
	if j >= 0 {
		vAssertEqBytesEither("account_rename_old_or_new_at_crash", s.data[j], old, newDoc)
	}
}

// Account creation: the new file is absent or complete.
func VH_C20_AccountCreate_sym() {
	vfsReset()
	initial := vfs.clone()
	am := &YAMLAccountManager{accountDir: "/cfg/Users", accounts: map[string]hotline.Account{}}
	err := am.Create(c20Account("eve"))
	vAssert("create_ok", err == nil)
	newDoc := c20LastWritten()
	s := c20Crash(initial)
	if i := s.find("/cfg/Users/eve.yaml"); i >= 0 {
		vAssertEqBytes("account_create_absent_or_complete_at_crash", s.data[i], newDoc)
	}
}

// Account deletion: the file is complete or absent.
func VH_C20_AccountDelete_sym() {
	vfsReset()
	old := vBytes("old", 200)
	vAssume(len(old) >= 1)
	vfs.put("/cfg/Users/bob.yaml", old)
	initial := vfs.clone()
	am := &YAMLAccountManager{accountDir: "/cfg/Users", accounts: map[string]hotline.Account{"bob": c20Account("bob")}}
	err := am.Delete("bob")
	vAssert("delete_ok", err == nil)
	s := c20Crash(initial)
	for i, n := range s.names {
		if n == "/cfg/Users/bob.yaml" {
			vAssertEqBytes("account_delete_complete_or_absent", s.data[i], old)
		}
	}
	vAssert("acknowledged_delete_on_disk", vfs.find("/cfg/Users/bob.yaml") < 0)
}

// Ban list save.
func VH_C20_BanAdd_sym() {
	vfsReset()
	old := vBytes("old", 200)
	vAssume(len(old) >= 1)
	vfs.put("/cfg/Banlist.yaml", old)
	if vBool("stale_temp_file_from_earlier_crash") {
		vfs.put("/cfg/Banlist.yaml.tmp", vBytes("stale_tmp", 500))
	}
	initial := vfs.clone()
	bf := &BanFile{filePath: "/cfg/Banlist.yaml", banList: map[string]*time.Time{}}
	err := bf.Add("10.0.0.9", nil)
	vAssert("add_ok", err == nil)
	newDoc := c20Marshalled // the document the ban list serialises to, not whatever ended up in the file
	if j := vfs.find("/cfg/Banlist.yaml"); true {
		vAssert("acknowledged_ban_is_on_disk", j >= 0)
		if j >= 0 {
			vAssertEqBytes("acknowledged_ban_file_is_the_new_document", vfs.data[j], newDoc)
		}
	}
	s := c20Crash(initial)
	i := s.find("/cfg/Banlist.yaml")
	vAssert("ban_file_exists_at_crash", i >= 0)
	if i >= 0 {
		vAssertEqBytesEither("ban_old_or_new_at_crash", s.data[i], old, newDoc)
	}
}

// the document most recently written by the update (to the live file or to its temporary file)
func c20LastWritten() []byte {
	var d []byte
	for _, op := range vfsLog {
		if op.kind == "write" || op.kind == "append" {
			d = op.data
		}
	}
	return d
}

// Every *.yaml file in the accounts directory is loaded as an account on restart: at a crash point none of them
// may be a partial document (temporary files must not match *.yaml).
func c20NoPartialAccountFile(s *vFSState, old, newDoc []byte) {
	for i, n := range s.names {
		if len(n) > 5 && n[len(n)-5:] == ".yaml" {
			vAssertEqBytesEither("every_loadable_account_file_complete_at_crash", s.data[i], old, newDoc)
		}
	}
}

// Start-up re-saves account files that are still in the old format. A kill at any point of that re-save leaves the
// account file as the complete old or the complete new document, and the directory loadable.
func VH_C20_StartupMigration_sym() {
	vfsReset()
	old := append([]byte("Login: bob\n"), vBytesN("old_format_rest", 12)...)
	vfs.put("/cfg/Users/bob.yaml", old)
	initial := vfs.clone()
	am, err := NewYAMLAccountManager("/cfg/Users")
	// (a document that happens to contain the new format's marker line is simply not re-saved)
	vAssert("start_ok", err == nil && am != nil)
	if len(vfsLog) == 0 {
		return
	}
	newDoc := c20LastWritten()
	s := c20Crash(initial)
	c20NoPartialAccountFile(s, old, newDoc)
	i := s.find("/cfg/Users/bob.yaml")
	vAssert("migrated_account_file_exists_at_crash", i >= 0)
	if i >= 0 {
		vAssertEqBytesEither("migrated_account_old_or_new_at_crash", s.data[i], old, newDoc)
	}
}

// The same for the longest logins (245..251 bytes, where "<login>.yaml.tmp" no longer fits a 255-byte file name but
// "<login>.yaml" still does): whatever the update does about its temporary file, the account file holds the complete
// old or the complete new document at every crash point.
func VH_C20_AccountUpdateLongestLogins_sym() {
	vUnroll(400)
	vfsReset()
	n := vInt("login_length")
	vAssume(n >= 245 && n <= 251)
	n = vConcrete(n)
	lb := make([]byte, n)
	for i := range lb {
		lb[i] = 'a' + byte(i%26)
	}
	login := string(lb)
	file := "/cfg/Users/" + login + ".yaml"
	old := vBytes("old", 200)
	vAssume(len(old) >= 1)
	vfs.put(file, old)
	initial := vfs.clone()
	am := &YAMLAccountManager{accountDir: "/cfg/Users", accounts: map[string]hotline.Account{login: c20Account(login)}}
	err := am.Update(c20Account(login), login)
	if err != nil {
		// refusing the update is fine as long as nothing was touched
		i := vfs.find(file)
		vAssert("refused_update_leaves_the_file_alone", i >= 0)
		if i >= 0 {
			vAssertEqBytes("refused_update_file_unchanged", vfs.data[i], old)
		}
		return
	}
	newDoc := c20LastWritten()
	s := c20Crash(initial)
	i := s.find(file)
	vAssert("long_login_account_file_exists_at_crash", i >= 0)
	if i >= 0 {
		vAssertEqBytesEither("long_login_account_old_or_new_at_crash", s.data[i], old, newDoc)
	}
}
