package mobius

import (
	"io"

	"github.com/jhalter/mobius/hotline"
)

// A reader client = the steps HandleGetMsgs / the login path perform on the shared store: Seek(0,0), then Read
// calls until io.EOF. Each step is atomic in the real code (Read holds the store's mutex, Seek is one assignment);
// the scheduler below interleaves the steps of two clients under a symbolic schedule.
type vBoardReader struct {
	stage int
	got   []byte
	done  bool
}

func (r *vBoardReader) step(f io.ReadSeeker) {
	if r.stage == 0 {
		f.Seek(0, 0)
		r.stage = 1
		return
	}
	p := make([]byte, 512)
	n, err := f.Read(p)
	r.got = append(r.got, p[:n]...)
	if err == io.EOF {
		r.done = true
	}
}

func c19TwoReaders(f io.ReadSeeker, text []byte, maxSteps int) {
	a, b := &vBoardReader{}, &vBoardReader{}
	for i := 0; i < maxSteps && !(a.done && b.done); i++ {
		pickA := vBool("sched")
		if (pickA && !a.done) || b.done {
			a.step(f)
		} else {
			b.step(f)
		}
	}
	vAssume(a.done && b.done)
	vAssertEqBytes("reader_a_gets_whole_text", a.got, text)
	vAssertEqBytes("reader_b_gets_whole_text", b.got, text)
}

// Two clients fetching the message board at the same moment each receive the complete text.
func VH_C19_BoardTwoReaders() {
	text := vBytes("text", 600)
	f := &FlatNews{data: text}
	c19TwoReaders(f, text, 10)
}

// Two clients being shown the agreement at login at the same moment.
func VH_C19_AgreementTwoReaders() {
	text := vBytes("text", 600)
	a := &Agreement{data: text}
	c19TwoReaders(a, text, 10)
}

// A single reader (no concurrency) always gets the whole text, whatever the cursor was left at.
func VH_C19_BoardSingleReader() {
	text := vBytes("text", 1200)
	f := &FlatNews{data: text, readOffset: vInt("stale_cursor")}
	r := &vBoardReader{}
	for i := 0; i < 6 && !r.done; i++ {
		r.step(f)
	}
	vAssert("reader_finished", r.done)
	vAssertEqBytes("single_reader_whole_text", r.got, text)
}

// Posting: every post is kept, newest first, and is on disk when Write returns.
func VH_C19_PostsKeptNewestFirst_sym() {
	vfsReset()
	old := vBytes("old", 300)
	vfs.put("/cfg/MessageBoard.txt", old)
	if vBool("stale_temp_file_from_earlier_crash") {
		vfs.put("/cfg/MessageBoard.txt.tmp", vBytes("stale_tmp", 900))
	}
	f := &FlatNews{data: append([]byte(nil), old...), filePath: "/cfg/MessageBoard.txt"}
	p1 := vBytes("post1", 100)
	p2 := vBytes("post2", 100)
	n1, err1 := f.Write(p1)
	if j := vfs.find("/cfg/MessageBoard.txt"); err1 == nil {
		vAssert("file_exists_after_first_post", j >= 0)
		vAssertEqBytes("first_post_on_disk_when_acknowledged", vfs.data[j], append(append([]byte(nil), p1...), old...))
	}
	n2, err2 := f.Write(p2)
	vAssert("posts_acknowledged", err1 == nil && err2 == nil && n1 == len(p1) && n2 == len(p2))
	// two users posting at the same moment: what goes to disk must be written while the store's lock is held, or the
	// older of two snapshots can land last and an acknowledged post is missing from the file
	for _, op := range vfsLog {
		vAssert("board_file_written_under_the_store_lock", op.locks > 0)
	}
	want := append(append(append([]byte(nil), p2...), p1...), old...)
	vAssertEqBytes("memory_newest_first_all_kept", f.data, want)
	i := vfs.find("/cfg/MessageBoard.txt")
	vAssert("file_exists", i >= 0)
	vAssertEqBytes("on_disk_when_acknowledged", vfs.data[i], want)
	// a reader after the posts sees exactly that text
	r := &vBoardReader{}
	for k := 0; k < 4 && !r.done; k++ {
		r.step(f)
	}
	vAssertEqBytes("reader_after_posts", r.got, want)
}

// Two posts made at the same time are both kept: whatever another poster completes just before this post obtains
// the store's lock must still be in the board afterwards (the read-modify-write happens inside the lock).
func VH_C19_ConcurrentPostsBothKept_sym() {
	vfsReset()
	old := vBytes("old", 200)
	vfs.put("/cfg/MessageBoard.txt", old)
	f := &FlatNews{data: append([]byte(nil), old...), filePath: "/cfg/MessageBoard.txt"}
	other := vBytes("other_post", 50)
	mine := vBytes("my_post", 50)
	vLockHook = func() {
		// the other poster's complete Write: prepend, save
		f.data = append(append([]byte(nil), other...), f.data...)
		vfs.put("/cfg/MessageBoard.txt", f.data)
	}
	_, err := f.Write(mine)
	vAssert("post_ok", err == nil)
	want := append(append(append([]byte(nil), mine...), other...), old...)
	vAssertEqBytes("both_posts_kept_in_memory", f.data, want)
	i := vfs.find("/cfg/MessageBoard.txt")
	vAssert("file_exists", i >= 0)
	vAssertEqBytes("both_posts_kept_on_disk", vfs.data[i], want)
}

// get-messages serves the complete board for every board size up to the field limit
func VH_C19_GetMsgsServesWholeBoard() {
	srv, cc := vNewServer()
	cc.Account.Access = hotline.AccessBitmap{0xff, 0xff, 0xff, 0xff, 0xff, 0xff, 0xff, 0xff}
	text := vBytes("text", 65535)
	srv.MessageBoard = &FlatNews{data: text, readOffset: vInt("stale_cursor")}
	t := hotline.NewTransaction(hotline.TranGetMsgs, cc.ID)
	res := HandleGetMsgs(cc, &t)
	vAssert("answered", len(res) == 1 && res[0].IsReply == 1 && len(res[0].Fields) == 1)
	vAssertEqBytes("board_served_whole", res[0].Fields[0].Data, text)
}

// A post through the protocol is stored in the board's line convention (no LF byte, whatever the body contains),
// on top of the older posts, and that exact text is what is on disk.
func VH_C19_PostIsStoredInBoardFormat_sym() {
	vfsReset()
	old := []byte("older post\r")
	vfs.put("/cfg/MessageBoard.txt", old)
	srv, cc := vNewServer()
	cc.Account.Access = hotline.AccessBitmap{0xff, 0xff, 0xff, 0xff, 0xff, 0xff, 0xff, 0xff}
	board := &FlatNews{data: append([]byte(nil), old...), filePath: "/cfg/MessageBoard.txt"}
	srv.MessageBoard = board
	body := vBytesEach("body", 4)
	t := hotline.NewTransaction(hotline.TranOldPostNews, cc.ID, f(hotline.FieldData, body))
	res := HandleTranOldPostNews(cc, &t)
	vAssert("post_acknowledged", len(res) == 1 && res[0].IsReply == 1 && res[0].ErrorCode == [4]byte{})
	n := len(board.data) - len(old)
	vAssert("post_prepended", n > 0)
	vAssertEqBytes("older_posts_kept_below", board.data[n:], old)
	k := vInt("any_index_of_the_stored_post")
	vAssume(k >= 0 && k < n)
	vAssert("stored_post_has_no_line_feed", board.data[k] != 10)
	i := vfs.find("/cfg/MessageBoard.txt")
	vAssert("file_exists", i >= 0)
	vAssertEqBytes("disk_is_the_served_board", vfs.data[i], board.data)
}

// Reloading the board from its file (start-up, SIGHUP): every byte of the file is kept as it is - Mac-Roman letters
// and bullets are bytes >= 0x80 and no valid UTF-8 - except that a line feed becomes the board's carriage return.
func VH_C19_ReloadKeepsEveryByte_sym() { c19Reload(vBytes("file", 300)) }

// the same for every file of up to 2 bytes, each length on its own (cheap whatever the implementation decodes)
func VH_C19_ReloadKeepsEveryByteShortFiles_sym() { c19Reload(vBytesEach("file", 2)) }

func c19Reload(file []byte) {
	vfsReset()
	vfs.put("/cfg/MessageBoard.txt", file)
	f := &FlatNews{filePath: "/cfg/MessageBoard.txt"}
	vAssert("reload_ok", f.Reload() == nil)
	vAssert("reload_keeps_length", len(f.data) == len(file))
	k := vInt("any_index")
	vAssume(k >= 0 && k < len(file) && k < len(f.data))
	want := file[k]
	if want == '\n' {
		want = '\r'
	}
	vAssert("reload_keeps_every_byte", f.data[k] == want)
}

// The agreement shown at login is the file's text with the configured line ending, at start-up and - the file not
// having changed - just the same after a reload (SIGHUP / API): nothing of it is lost or altered by reloading.
func VH_C19_AgreementSameAfterReload_sym() { c19AgreementReload(vBytes("file", 200)) }

// the same for two fixed texts (several lines; Mac-Roman bytes), so that the outcome does not depend on what the
// engine can say about string replacement over arbitrary text
func VH_C19_AgreementSameAfterReloadFixedTexts_sym() {
	if vBool("mac_roman_text") {
		c19AgreementReload([]byte("caf\x8e \xa5 one line"))
	} else {
		c19AgreementReload([]byte("Welcome to the server.\nBe nice.\nNo warez.\n"))
	}
}

func c19AgreementReload(file []byte) {
	vfsReset()
	vfs.put("/cfg/Agreement.txt", file)
	a, err := NewAgreement("/cfg", "\r")
	vAssert("agreement_loaded", err == nil && a != nil)
	before := append([]byte(nil), a.data...)
	vAssert("start_up_text_keeps_length", len(before) == len(file))
	k := vInt("any_index")
	vAssume(k >= 0 && k < len(file) && k < len(before))
	want := file[k]
	if want == '\n' {
		want = '\r'
	}
	vAssert("start_up_text_is_the_file_with_the_line_ending", before[k] == want)
	vAssert("reload_ok", a.Reload() == nil)
	vAssertEqBytes("agreement_unchanged_by_reloading_an_unchanged_file", a.data, before)
}
