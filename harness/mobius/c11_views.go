package mobius

import (
	"github.com/jhalter/mobius/hotline"
)

// For a file without a resource fork the size and type shown by get-info and announced by the download reply
// agree with each other and with the size on disk.
func VH_C11_InfoAndDownloadAgree() {
	e := vNewEnv()
	e.cc.Account.Access = hotline.AccessBitmap{0xff, 0xff, 0xff, 0xff, 0xff, 0xff, 0xff, 0xff}
	vAssume(e.fs.exists && !e.fs.isDir)
	vAssume(!(e.fs.infoFork && e.fs.infoSaysFldr)) // a stored info fork that contradicts the entry's kind is a corrupt store
	size := vInt("file_size")
	vAssume(0 <= size && size < 1<<32)
	e.fs.size = int64(size)
	fields := []hotline.Field{c05Name, f(hotline.FieldFilePath, vPathField("docs"))}
	ti := hotline.NewTransaction(hotline.TranGetFileInfo, e.cc.ID, fields...)
	info := HandleGetFileInfo(e.cc, &ti)
	td := hotline.NewTransaction(hotline.TranDownloadFile, e.cc.ID, fields...)
	dl := HandleDownloadFile(e.cc, &td)
	vAssert("both_answered", len(info) == 1 && len(dl) == 1 && !vIsErrReply(info) && !vIsErrReply(dl))
	get := func(res []hotline.Transaction, id [2]byte) []byte {
		for _, fl := range res[0].Fields {
			if fl.Type == id {
				return fl.Data
			}
		}
		return nil
	}
	is, ds := get(info, hotline.FieldFileSize), get(dl, hotline.FieldFileSize)
	vAssert("sizes_present", len(is) == 4 && len(ds) == 4)
	vAssert("info_size_is_disk_size", c08U32(is) == size)
	vAssert("download_size_is_disk_size", c08U32(ds) == size)
	ty := get(info, hotline.FieldFileType)
	vAssert("info_type_for_txt", string(ty) == "TEXT")
	vAssert("info_name_is_listed_name", string(get(info, hotline.FieldFileName)) == "target.txt")
}
