package mobius

import (
	"time"

	"github.com/jhalter/mobius/hotline"
)

// The disconnect request records the ban under the target's IP (the part of the peer address before the colon -
// the same key the door computes), temporary = now + 30 minutes, permanent = no expiry.
func VH_C17_BanRecordedUnderPeerIP_sym() {
	srv, cc := vNewServer()
	cc.Account.Access = hotline.AccessBitmap{0xff, 0xff, 0xfe, 0xff, 0xff, 0xff, 0xff, 0xff}
	ban := &vStubBan{}
	srv.BanList = ban
	target := vNewClient(srv, "victim")
	target.Account.Access = hotline.AccessBitmap{}
	d := func(n string) byte {
		x := vU8(n)
		vAssume('0' <= x && x <= '9')
		return x
	}
	ip := []byte{d("d1"), '.', d("d2"), d("d2b"), '.', d("d3"), '.', d("d4")}
	target.RemoteAddr = string(ip) + ":5500"
	opt := byte(1 + vChoice("ban_kind", 2)) // 1 temporary, 2 permanent
	t := hotline.NewTransaction(hotline.TranDisconnectUser, cc.ID,
		hotline.NewField(hotline.FieldUserID, target.ID[:]),
		hotline.NewField(hotline.FieldOptions, []byte{0, opt}))
	before := time.Now()
	res := HandleDisconnectUser(cc, &t)
	after := time.Now()
	vAssert("ban_recorded_once", len(ban.added) == 1)
	vAssert("ban_key_is_peer_ip", ban.added[0] == string(ip))
	if opt == 2 {
		vAssert("permanent_has_no_expiry", ban.addedUntil[0] == nil)
	} else {
		u := ban.addedUntil[0]
		vAssert("temporary_has_expiry", u != nil)
		lo := before.Add(30 * time.Minute)
		hi := after.Add(30 * time.Minute)
		vAssert("temporary_expires_after_30_minutes", !u.Before(lo) && !hi.Before(*u))
	}
	vAssert("disconnect_scheduled", vSpawnCount() == 1)
	vAssert("requester_answered", len(res) >= 1 && res[len(res)-1].IsReply == 1 && res[len(res)-1].ClientID == cc.ID)
}

// The real ban table: a banned address is reported banned with its expiry, every other address is not.
func VH_C17_BanTable_sym() {
	vfsReset()
	bf := &BanFile{filePath: "/cfg/Banlist.yaml", banList: map[string]*time.Time{}}
	until := vTimeAny("until")
	perm := vBool("permanent")
	var err error
	if perm {
		err = bf.Add("10.1.2.3", nil)
	} else {
		err = bf.Add("10.1.2.3", &until)
	}
	vAssert("add_ok", err == nil)
	vAssert("ban_saved", vfs.find("/cfg/Banlist.yaml") >= 0)
	b, u := bf.IsBanned("10.1.2.3")
	vAssert("banned_address_is_banned", b)
	if perm {
		vAssert("permanent_no_expiry", u == nil)
	} else {
		vAssert("expiry_kept", u != nil && u.Equal(until))
	}
	b2, _ := bf.IsBanned("10.1.2.4")
	vAssert("other_address_unaffected", !b2)
	writesAfterFirst := 0
	for _, op := range vfsLog {
		if op.kind == "write" {
			writesAfterFirst++
		}
	}
	// banning the same address again replaces the earlier ban (temporary -> permanent, or a fresh expiry)
	later := vTimeAny("later")
	if vBool("second_permanent") {
		err = bf.Add("10.1.2.3", nil)
		_, u2 := bf.IsBanned("10.1.2.3")
		vAssert("reban_permanent_takes_effect", err == nil && u2 == nil)
	} else {
		err = bf.Add("10.1.2.3", &later)
		_, u2 := bf.IsBanned("10.1.2.3")
		vAssert("reban_new_expiry_takes_effect", err == nil && u2 != nil && u2.Equal(later))
	}
	writes := 0
	for _, op := range vfsLog {
		if op.kind == "write" {
			writes++
		}
	}
	vAssert("second_ban_is_saved_too", writes > writesAfterFirst)
}

// Bans of different addresses do not touch each other: after banning A (temporarily or for good) and then B, both
// are banned with their own expiry, and addresses whose text merely extends or shortens a banned one (10.0.0.1 vs
// 10.0.0.10 / 10.0.0.12 / 10.0.0) are not banned.
func VH_C17_BansOfDifferentAddressesAreIndependent_sym() {
	vfsReset()
	bf := &BanFile{filePath: "/cfg/Banlist.yaml", banList: map[string]*time.Time{}}
	untilA, untilB := vTimeAny("until_a"), vTimeAny("until_b")
	permA, permB := vBool("a_permanent"), vBool("b_permanent")
	var pa, pb *time.Time
	if !permA {
		pa = &untilA
	}
	if !permB {
		pb = &untilB
	}
	vAssert("ban_a_ok", bf.Add("10.0.0.1", pa) == nil)
	vAssert("ban_b_ok", bf.Add("10.9.9.9", pb) == nil)
	ba, ua := bf.IsBanned("10.0.0.1")
	bb, ub := bf.IsBanned("10.9.9.9")
	vAssert("first_ban_survives_the_second", ba && (permA && ua == nil || !permA && ua != nil && ua.Equal(untilA)))
	vAssert("second_ban_recorded", bb && (permB && ub == nil || !permB && ub != nil && ub.Equal(untilB)))
	for _, other := range []string{"10.0.0.10", "10.0.0.12", "10.0.0.100", "10.0.0", "110.0.0.1", "10.0.0.1:5500"} {
		b, _ := bf.IsBanned(other)
		vAssert("address_with_a_similar_text_is_not_banned", !b)
	}
}
