package mobius

import (
	"github.com/jhalter/mobius/hotline"
)

func c15Mgr() *YAMLAccountManager {
	vfsReset()
	vfs.put("/cfg/Users/bob.yaml", []byte("bob-doc"))
	vfs.put("/cfg/Users/amy.yaml", []byte("amy-doc"))
	return &YAMLAccountManager{accountDir: "/cfg/Users", accounts: map[string]hotline.Account{
		"bob": {Login: "bob", Name: "Bob", Password: "H:zzpw"},
		"amy": {Login: "amy", Name: "Amy", Password: "H:zz"},
	}}
}

// memory == disk: the logins in the manager's table are exactly the <login>.yaml files in the accounts directory
func c15Consistent(am *YAMLAccountManager, want []string) {
	vAssert("memory_count", len(am.accounts) == len(want))
	nYaml := 0
	for _, n := range vfs.names {
		if len(n) > 5 && n[len(n)-5:] == ".yaml" {
			nYaml++
		}
	}
	vAssert("disk_count", nYaml == len(want))
	for _, l := range want {
		a := am.Get(l)
		vAssert("login_resolves_"+l, a != nil && a.Login == l)
		vAssert("file_exists_"+l, vfs.find("/cfg/Users/"+l+".yaml") >= 0)
	}
	vAssert("listed_count", len(am.List()) == len(want))
}

func VH_C15_Create_sym() {
	am := c15Mgr()
	err := am.Create(hotline.Account{Login: "eve", Name: "Eve", Password: "H:zzx"})
	vAssert("create_ok", err == nil)
	c15Consistent(am, []string{"bob", "amy", "eve"})
	// creating an existing login fails and changes nothing
	err = am.Create(hotline.Account{Login: "bob", Name: "Mallory", Password: "H:zzy"})
	vAssert("duplicate_refused", err != nil)
	c15Consistent(am, []string{"bob", "amy", "eve"})
	vAssert("duplicate_left_account_alone", am.Get("bob").Name == "Bob")
	i := vfs.find("/cfg/Users/bob.yaml")
	vAssertEqBytes("duplicate_left_file_alone", vfs.data[i], []byte("bob-doc"))
}

func VH_C15_UpdateSameLogin_sym() {
	am := c15Mgr()
	err := am.Update(hotline.Account{Login: "bob", Name: "Robert", Password: "H:zznew"}, "bob")
	vAssert("update_ok", err == nil)
	c15Consistent(am, []string{"bob", "amy"})
	a := am.Get("bob")
	vAssert("fields_updated", a.Name == "Robert" && vIsHashOf(a.Password, "new"))
	vAssert("other_untouched", am.Get("amy").Name == "Amy")
}

func VH_C15_Rename_sym() {
	am := c15Mgr()
	err := am.Update(hotline.Account{Login: "bob", Name: "Bob", Password: "H:zzpw"}, "rob")
	vAssert("rename_ok", err == nil)
	vAssert("renamed_away_login_gone_from_memory", am.Get("bob") == nil)
	vAssert("renamed_away_file_gone", vfs.find("/cfg/Users/bob.yaml") < 0)
	c15Consistent(am, []string{"rob", "amy"})
	vAssert("renamed_keeps_fields", am.Get("rob").Name == "Bob" && vIsHashOf(am.Get("rob").Password, "pw"))
	// the file under the new name records the new login (so a restart loads it under the new login)
	i := vfs.find("/cfg/Users/rob.yaml")
	vAssert("renamed_file_exists", i >= 0)
	want := "Login: rob\n"
	vAssert("renamed_file_records_new_login", len(vfs.data[i]) >= len(want) && string(vfs.data[i][:len(want)]) == want)
}

func VH_C15_Delete_sym() {
	am := c15Mgr()
	err := am.Delete("bob")
	vAssert("delete_ok", err == nil)
	vAssert("deleted_cannot_resolve", am.Get("bob") == nil)
	c15Consistent(am, []string{"amy"})
	err = am.Delete("nobody")
	vAssert("delete_missing_fails", err != nil)
	c15Consistent(am, []string{"amy"})
}

// ---- password rules of the protocol handlers (AccountManager replaced by a recording stub) -----------------

func c15SetUser(pwField []byte, hasPw bool) (*vStubAM, []hotline.Transaction) {
	srv, cc := vNewServer()
	cc.Account.Access = hotline.AccessBitmap{0xff, 0xff, 0xff, 0xff, 0xff, 0xff, 0xff, 0xff}
	am := &vStubAM{getResult: &hotline.Account{Login: "bob", Name: "Bob", Password: "H:zzold"}}
	srv.AccountManager = am
	fields := []hotline.Field{
		hotline.NewField(hotline.FieldUserLogin, []byte{0x9d, 0x90, 0x9d}), // obfuscated "bob"
		hotline.NewField(hotline.FieldUserName, []byte("Bobby")),
		hotline.NewField(hotline.FieldUserAccess, vBytesN("newaccess", 8)),
	}
	if hasPw {
		fields = append(fields, hotline.NewField(hotline.FieldUserPassword, pwField))
	}
	t := hotline.NewTransaction(hotline.TranSetUser, cc.ID, fields...)
	return am, HandleSetUser(cc, &t)
}

// set-user: absent password clears it, the single-zero-byte marker leaves it alone, anything else replaces it;
// what is stored is the hash, never the bytes from the wire.
func VH_C15_SetUserPasswordRules() {
	mode := vChoice("pw_mode", 3)
	var am *vStubAM
	var pw []byte
	switch mode {
	case 0:
		am, _ = c15SetUser(nil, false)
	case 1:
		am, _ = c15SetUser([]byte{0}, true)
	default:
		pw = vBytesEach("pw", 3)
		vAssume(!(len(pw) == 1 && pw[0] == 0))
		vAssume(len(pw) >= 1)
		am, _ = c15SetUser(pw, true)
	}
	vAssert("one_update", len(am.updated) == 1)
	got := am.updated[0].Password
	switch mode {
	case 0:
		vAssert("absent_password_clears", vIsHashOf(got, ""))
	case 1:
		vAssert("marker_leaves_password", vIsHashOf(got, "old"))
	default:
		vAssert("new_password_hashed", vIsHashOf(got, string(pw)))
		vAssert("password_not_stored_plain", got != string(pw))
	}
	vAssert("name_updated", am.updated[0].Name == "Bobby" && am.updatedNew[0] == "bob")
}

// new-user then login: the stored hash authenticates exactly the password bytes that were sent.
func VH_C15_NewUserThenAuthenticate() {
	srv, cc := vNewServer()
	cc.Account.Access = hotline.AccessBitmap{0xff, 0xff, 0xff, 0xff, 0xff, 0xff, 0xff, 0xff}
	am := &vStubAM{}
	srv.AccountManager = am
	pw := vBytesEach("pw", 3)
	t := hotline.NewTransaction(hotline.TranNewUser, cc.ID,
		hotline.NewField(hotline.FieldUserLogin, []byte{0x9a, 0x89, 0x9a}), // obfuscated "eve"
		hotline.NewField(hotline.FieldUserName, []byte("Eve")),
		hotline.NewField(hotline.FieldUserPassword, pw),
		hotline.NewField(hotline.FieldUserAccess, make([]byte, 8)),
	)
	res := HandleNewUser(cc, &t)
	vAssert("created", len(am.created) == 1 && !vIsErrReply(res))
	acc := am.created[0]
	vAssert("login_decoded", acc.Login == "eve")
	vAssert("stored_hash_only", vIsHashOf(acc.Password, string(pw)))
	am.getResult = &acc
	vAssert("can_log_in_with_password", cc.Authenticate("eve", pw))
	other := vBytesEach("other", 3)
	if string(other) != string(pw) {
		vAssert("cannot_log_in_with_other_password", !cc.Authenticate("eve", other))
	}
}

// Batched update-user: entries are independent - [delete amy, modify bob] deletes exactly amy and updates exactly bob.
func VH_C15_BatchedUpdateEntriesIndependent() {
	srv, cc := vNewServer()
	cc.Account.Access = hotline.AccessBitmap{0xff, 0xff, 0xff, 0xff, 0xff, 0xff, 0xff, 0xff}
	am := &vStubAM{getResult: &hotline.Account{Login: "bob", Name: "Bob", Password: "H:zzold"}}
	srv.AccountManager = am
	obf := func(s string) []byte {
		b := []byte(s)
		for i := range b {
			b[i] = 255 - b[i]
		}
		return b
	}
	del := append([]byte{0, 1}, vSubField(hotline.FieldData, obf("amy"))...)
	mod := []byte{0, 3}
	mod = append(mod, vSubField(hotline.FieldUserLogin, obf("bob"))...)
	mod = append(mod, vSubField(hotline.FieldUserName, []byte("Robert"))...)
	mod = append(mod, vSubField(hotline.FieldUserPassword, []byte{0})...)
	order := vBool("delete_first")
	var fields []hotline.Field
	if order {
		fields = []hotline.Field{f(hotline.FieldData, del), f(hotline.FieldData, mod)}
	} else {
		fields = []hotline.Field{f(hotline.FieldData, mod), f(hotline.FieldData, del)}
	}
	t := hotline.NewTransaction(hotline.TranUpdateUser, cc.ID, fields...)
	res := HandleUpdateUser(cc, &t)
	vAssert("batch_ok_reply", len(res) >= 1 && !vIsErrReply(res[len(res)-1:]))
	vAssert("batch_deletes_exactly_amy", len(am.deleted) == 1 && am.deleted[0] == "amy")
	vAssert("batch_updates_exactly_bob", len(am.updated) == 1 && am.updated[0].Login == "bob" && am.updatedNew[0] == "bob" && am.updated[0].Name == "Robert")
	vAssert("batch_password_marker_keeps_password", len(am.updated) == 1 && vIsHashOf(am.updated[0].Password, "old"))
	vAssert("batch_creates_nothing", len(am.created) == 0)
}

// [rename bob -> rob, modify amy] in one request: the second entry acts on amy, not on the first entry's login.
func VH_C15_BatchedRenameThenModify() {
	srv, cc := vNewServer()
	cc.Account.Access = hotline.AccessBitmap{0xff, 0xff, 0xff, 0xff, 0xff, 0xff, 0xff, 0xff}
	am := &vStubAM{getResult: &hotline.Account{Login: "bob", Name: "Bob", Password: "H:zzold"}, getResult2: &hotline.Account{Login: "amy", Name: "Amy", Password: "H:zzamy"}}
	srv.AccountManager = am
	obf := func(s string) []byte {
		b := []byte(s)
		for i := range b {
			b[i] = 255 - b[i]
		}
		return b
	}
	ren := []byte{0, 4}
	ren = append(ren, vSubField(hotline.FieldData, obf("bob"))...)
	ren = append(ren, vSubField(hotline.FieldUserLogin, obf("rob"))...)
	ren = append(ren, vSubField(hotline.FieldUserName, []byte("Bob"))...)
	ren = append(ren, vSubField(hotline.FieldUserPassword, []byte{0})...)
	mod := []byte{0, 3}
	mod = append(mod, vSubField(hotline.FieldUserLogin, obf("amy"))...)
	mod = append(mod, vSubField(hotline.FieldUserName, []byte("Amelia"))...)
	mod = append(mod, vSubField(hotline.FieldUserPassword, []byte("newpw"))...)
	t := hotline.NewTransaction(hotline.TranUpdateUser, cc.ID, f(hotline.FieldData, ren), f(hotline.FieldData, mod))
	res := HandleUpdateUser(cc, &t)
	vAssert("batch2_ok_reply", len(res) >= 1 && !vIsErrReply(res[len(res)-1:]))
	vAssert("batch2_two_updates", len(am.updated) == 2 && len(am.created) == 0 && len(am.deleted) == 0)
	if len(am.updated) == 2 {
		vAssert("batch2_first_is_the_rename", am.updated[0].Login == "bob" && am.updatedNew[0] == "rob" && vIsHashOf(am.updated[0].Password, "old"))
		vAssert("batch2_second_acts_on_amy", am.updated[1].Login == "amy" && am.updatedNew[1] == "amy" && am.updated[1].Name == "Amelia" && vIsHashOf(am.updated[1].Password, "newpw"))
	}
}

// Restart: every account file in the accounts directory is an account again after the server starts, whatever its
// login - a login starting with a dot, the empty login (file ".yaml") and one-byte logins ('.', 'a', '-', a high byte) included - so that
// memory, listing and disk still agree.
func VH_C15_RestartLoadsEveryAccountFile_sym() {
	vfsReset()
	const modern = "\n    DownloadFile: true\n"
	logins := []string{"bob", ".hidden", ""}
	one := vBytesEach("one_byte_login", 1)
	if len(one) == 1 {
		vAssume(one[0] == '.' || one[0] == 'a' || one[0] == '-' || one[0] == 0x8e)
		logins = append(logins, string([]byte{byte(vConcrete(int(one[0])))}))
	}
	for _, l := range logins {
		vfs.put("/cfg/Users/"+l+".yaml", []byte("Login: "+l+modern))
	}
	vfs.put("/cfg/Users/notes.txt", []byte("not an account"))
	am, err := NewYAMLAccountManager("/cfg/Users")
	vAssert("accounts_load", err == nil && am != nil)
	if am == nil {
		return
	}
	vAssert("as_many_accounts_as_files", len(am.List()) == len(logins))
	for _, l := range logins {
		a := am.Get(l)
		vAssert("every_account_file_is_an_account_after_restart", a != nil && a.Login == l)
	}
}

// The password rules hold for a renaming entry of a batched update exactly as for a plain one: no password field
// clears the password, the one-zero-byte marker keeps it, anything else sets it.
func VH_C15_BatchedRenamePasswordRules() {
	srv, cc := vNewServer()
	cc.Account.Access = hotline.AccessBitmap{0xff, 0xff, 0xff, 0xff, 0xff, 0xff, 0xff, 0xff}
	am := &vStubAM{getResult: &hotline.Account{Login: "bob", Name: "Bob", Password: "H:zzold"}}
	srv.AccountManager = am
	obf := func(s string) []byte {
		b := []byte(s)
		for i := range b {
			b[i] = 255 - b[i]
		}
		return b
	}
	mode := vChoice("password_field", 3) // 0 absent, 1 marker, 2 new password
	pw := vBytesEach("new_password", 2)
	n := 3
	if mode != 0 {
		n = 4
	}
	ren := []byte{0, byte(n)}
	ren = append(ren, vSubField(hotline.FieldData, obf("bob"))...)
	ren = append(ren, vSubField(hotline.FieldUserLogin, obf("rob"))...)
	ren = append(ren, vSubField(hotline.FieldUserName, []byte("Bob"))...)
	switch mode {
	case 1:
		ren = append(ren, vSubField(hotline.FieldUserPassword, []byte{0})...)
	case 2:
		vAssume(!(len(pw) == 1 && pw[0] == 0))
		ren = append(ren, vSubField(hotline.FieldUserPassword, pw)...)
	}
	t := hotline.NewTransaction(hotline.TranUpdateUser, cc.ID, f(hotline.FieldData, ren))
	HandleUpdateUser(cc, &t)
	vAssert("rename_performed", len(am.updated) == 1 && am.updatedNew[0] == "rob")
	if len(am.updated) == 1 {
		got := am.updated[0].Password
		switch mode {
		case 0:
			vAssert("rename_without_password_field_clears_it", vIsHashOf(got, ""))
		case 1:
			vAssert("rename_with_marker_keeps_it", got == "H:zzold")
		default:
			vAssert("rename_with_new_password_sets_it", vIsHashOf(got, string(pw)))
		}
	}
}
