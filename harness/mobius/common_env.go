package mobius

import (
	"io"
	"io/fs"
	"os"
	"time"

	"github.com/jhalter/mobius/hotline"
	"golang.org/x/text/encoding"
)

// ---- text encoding: identity on the ASCII names used by the handler harnesses (engine-only) -------------------
func vStub_encoding_Decoder_String(d *encoding.Decoder, s string) (string, error) { return s, nil }
func vStub_encoding_Encoder_String(e *encoding.Encoder, s string) (string, error) { return s, nil }

// calendar arithmetic and float conversion are outside every claim: 8 arbitrary bytes
func vStub_hotline_NewTime(t time.Time) (b hotline.Time) {
	copy(b[:], vBytesN("hltime", 8))
	return b
}

// directory walks are replaced by fixed answers; the call itself is the recorded effect
var vListings, vWalks int

func vStub_hotline_GetFileNameList(path string, ignoreList []string) ([]hotline.Field, error) {
	vListings++
	return []hotline.Field{hotline.NewField(hotline.FieldFileNameWithInfo, []byte("entry"))}, nil
}
func vStub_hotline_CalcTotalSize(filePath string) ([]byte, error) { vWalks++; return []byte{0, 0, 0, 9}, nil }
func vStub_hotline_CalcItemCount(filePath string) ([]byte, error) { vWalks++; return []byte{0, 2}, nil }

func vStub_os_File_ReadFrom(f *os.File, r io.Reader) (int64, error) {
	b, err := io.ReadAll(r)
	vStub_os_File_Write(f, b)
	return int64(len(b)), err
}

// ---- file store stub --------------------------------------------------------------------------------------------

type vFileInfo struct {
	name string
	size int64
	dir  bool
}

func (i *vFileInfo) Name() string { return i.name }
func (i *vFileInfo) Size() int64  { return i.size }
func (i *vFileInfo) Mode() fs.FileMode {
	if i.dir {
		return fs.ModeDir | 0755
	}
	return 0644
}
func (i *vFileInfo) ModTime() time.Time { return time.Time{} }
func (i *vFileInfo) IsDir() bool        { return i.dir }
func (i *vFileInfo) Sys() any           { return nil }

// vStubFS: one target entry (exists or not, file or folder); fork side files and partial files do not exist.
type vStubFS struct {
	infoFork     bool // a ".info_<name>" side file is stored ...
	infoSaysFldr bool // ... and records type "fldr" (else "TEXT"), whatever the entry really is
	partial  bool  // a partial upload "<name>.incomplete" exists
	partSize int64 // its size
	exists   bool
	isDir    bool
	size     int64
	removed  []string
	renamed  []string
	renameTo []string
	mkdirs   []string
	links    []string
	linkTo   []string
	written  []string
	opened   []string
	stats    []string
}

func vSideFile(name string) bool {
	// base name starts with '.' or ends with ".incomplete"
	i := len(name) - 1
	for i >= 0 && name[i] != '/' {
		i--
	}
	base := name[i+1:]
	if len(base) > 0 && base[0] == '.' {
		return true
	}
	return len(base) > 11 && base[len(base)-11:] == ".incomplete"
}

func (s *vStubFS) Stat(name string) (fs.FileInfo, error) {
	s.stats = append(s.stats, name)
	if s.infoFork && s.exists && vIsInfoFork(name) {
		return &vFileInfo{name: ".info_target.txt", size: 84}, nil
	}
	if s.partial && len(name) > 11 && name[len(name)-11:] == ".incomplete" {
		return &vFileInfo{name: "target.txt.incomplete", size: s.partSize}, nil
	}
	if !s.exists || vSideFile(name) {
		return nil, fs.ErrNotExist
	}
	return &vFileInfo{name: "target.txt", size: s.size, dir: s.isDir}, nil
}
func (s *vStubFS) Mkdir(name string, perm os.FileMode) error { s.mkdirs = append(s.mkdirs, name); return nil }
func (s *vStubFS) Open(name string) (*os.File, error)         { s.opened = append(s.opened, name); return nil, fs.ErrNotExist }
func (s *vStubFS) Create(name string) (*os.File, error)       { s.written = append(s.written, name); return nil, fs.ErrPermission }
func (s *vStubFS) OpenFile(name string, flag int, perm fs.FileMode) (*os.File, error) {
	s.written = append(s.written, name)
	return nil, fs.ErrPermission
}
func (s *vStubFS) Remove(name string) error {
	s.removed = append(s.removed, name)
	if vSideFile(name) {
		return fs.ErrNotExist
	}
	return nil
}
func (s *vStubFS) RemoveAll(path string) error { s.removed = append(s.removed, path); return nil }
func (s *vStubFS) Rename(oldpath string, newpath string) error {
	s.renamed = append(s.renamed, oldpath)
	s.renameTo = append(s.renameTo, newpath)
	if vSideFile(oldpath) {
		return fs.ErrNotExist
	}
	return nil
}
func (s *vStubFS) Symlink(oldname, newname string) error {
	s.links = append(s.links, oldname)
	s.linkTo = append(s.linkTo, newname)
	return nil
}
func (s *vStubFS) WriteFile(name string, data []byte, perm fs.FileMode) error {
	s.written = append(s.written, name)
	return nil
}
func (s *vStubFS) ReadFile(name string) ([]byte, error) {
	if s.infoFork && s.exists && vIsInfoFork(name) {
		b := make([]byte, 72)
		copy(b[0:], "AMAC")
		if s.infoSaysFldr {
			copy(b[4:], "fldr")
			copy(b[8:], "n/a ")
		} else {
			copy(b[4:], "TEXT")
			copy(b[8:], "ttxt")
		}
		b[71] = 10
		b = append(b, "target.txt"...)
		return append(b, 0, 0), nil
	}
	return nil, fs.ErrNotExist
}

func vIsInfoFork(name string) bool {
	i := len(name) - 1
	for i >= 0 && name[i] != '/' {
		i--
	}
	base := name[i+1:]
	return len(base) > 6 && base[:6] == ".info_"
}

func (s *vStubFS) mutations() int {
	return len(s.removed) + len(s.renamed) + len(s.mkdirs) + len(s.links) + len(s.written)
}

// ---- threaded news stub ---------------------------------------------------------------------------------------

type vStubNews struct {
	itemIsCategory bool
	lists, gets    int
	deletedArts    int
	posts          int
	createdCats    int
	createdBundles int
	catLists       int
	deletedItems   int
}

func (n *vStubNews) ListArticles(newsPath []string) hotline.NewsArtListData {
	n.lists++
	return hotline.NewsArtListData{}
}
func (n *vStubNews) GetArticle(newsPath []string, articleID uint32) *hotline.NewsArtData {
	n.gets++
	return &hotline.NewsArtData{Title: "t", Poster: "p", Data: "d"}
}
func (n *vStubNews) DeleteArticle(newsPath []string, articleID uint32, recursive bool) error {
	n.deletedArts++
	return nil
}
func (n *vStubNews) PostArticle(newsPath []string, parentArticleID uint32, article hotline.NewsArtData) error {
	n.posts++
	return nil
}
func (n *vStubNews) CreateGrouping(newsPath []string, name string, t [2]byte) error {
	if t == hotline.NewsCategory {
		n.createdCats++
	} else {
		n.createdBundles++
	}
	return nil
}
func (n *vStubNews) GetCategories(paths []string) []hotline.NewsCategoryListData15 {
	n.catLists++
	return []hotline.NewsCategoryListData15{{Type: hotline.NewsBundle, Name: "b"}}
}
func (n *vStubNews) NewsItem(newsPath []string) hotline.NewsCategoryListData15 {
	if n.itemIsCategory {
		return hotline.NewsCategoryListData15{Type: hotline.NewsCategory, Name: "x"}
	}
	return hotline.NewsCategoryListData15{Type: hotline.NewsBundle, Name: "x"}
}
func (n *vStubNews) DeleteNewsItem(newsPath []string) error { n.deletedItems++; return nil }

func (n *vStubNews) mutations() int {
	return n.deletedArts + n.posts + n.createdCats + n.createdBundles + n.deletedItems
}
func (n *vStubNews) reads() int { return n.lists + n.gets + n.catLists }

// ---- message board stub ----------------------------------------------------------------------------------------

type vStubBoard struct{ reads, writes int }

func (b *vStubBoard) Read(p []byte) (int, error)                    { b.reads++; return 0, io.EOF }
func (b *vStubBoard) Write(p []byte) (int, error)                   { b.writes++; return len(p), nil }
func (b *vStubBoard) Seek(off int64, whence int) (int64, error)     { return 0, nil }

// ---- file transfer registry stub -------------------------------------------------------------------------------

type vStubFTM struct{ added []*hotline.FileTransfer }

func (m *vStubFTM) Add(ft *hotline.FileTransfer) {
	ft.RefNum = [4]byte{0, 0, 0, byte(len(m.added) + 1)}
	m.added = append(m.added, ft)
}
func (m *vStubFTM) Get(id hotline.FileTransferID) *hotline.FileTransfer { return nil }
func (m *vStubFTM) Delete(id hotline.FileTransferID)                   {}

// ---- the handler environment ---------------------------------------------------------------------------------------

type vEnv struct {
	srv   *hotline.Server
	cc    *hotline.ClientConn
	other *hotline.ClientConn
	am    *vStubAM
	ban   *vStubBan
	news  *vStubNews
	board *vStubBoard
	fs    *vStubFS
	ftm   *vStubFTM
}

func vNewEnv() *vEnv {
	vfsReset()
	vListings, vWalks = 0, 0
	e := &vEnv{}
	e.srv, e.cc = vNewServer()
	e.other = vNewClient(e.srv, "other")
	e.am = &vStubAM{getResult: &hotline.Account{Login: "bob", Name: "Bob", Password: "H:zzold"}, list: []hotline.Account{{Login: "bob", Name: "Bob", Password: "H:zz"}}}
	e.ban = &vStubBan{}
	e.news = &vStubNews{itemIsCategory: vBool("news_item_is_category")}
	e.board = &vStubBoard{}
	e.fs = &vStubFS{exists: vBool("target_exists"), isDir: vBool("target_is_folder"), size: 10}
	e.fs.infoFork = vBool("info_fork_stored")
	e.fs.infoSaysFldr = vBool("info_fork_says_folder")
	e.ftm = &vStubFTM{}
	e.srv.AccountManager = e.am
	e.srv.BanList = e.ban
	e.srv.ThreadedNewsMgr = e.news
	e.srv.MessageBoard = e.board
	e.srv.FS = e.fs
	e.srv.FileTransferMgr = e.ftm
	e.srv.Config.FileRoot = "/r"
	return e
}

func (e *vEnv) has(i int) bool { return vBit(e.cc.Account.Access, i) }

// everything a request could change, disclose from protected stores, or send to other users
func (e *vEnv) sideEffects(res []hotline.Transaction) int {
	n := e.fs.mutations() + e.news.mutations() + e.news.reads() + e.board.reads + e.board.writes + len(vfsLog) + vListings + vWalks
	n += len(e.am.created) + len(e.am.updated) + len(e.am.deleted) + e.am.listCalls + len(e.ban.added) + len(e.ftm.added) + vSpawnCount()
	for _, t := range res {
		if t.ClientID != e.cc.ID {
			n++
		}
	}
	return n
}

func vErrText(res []hotline.Transaction) string {
	if !vIsErrReply(res) || len(res[0].Fields) != 1 {
		return ""
	}
	return string(res[0].Fields[0].Data)
}

func vHasPrefix(s, p string) bool { return len(s) >= len(p) && s[:len(p)] == p }

// a refusal for lack of privilege (as opposed to "not found", "already exists", ...)
func vIsDenial(res []hotline.Transaction) bool {
	t := vErrText(res)
	return vHasPrefix(t, "You are not allowed") || vHasPrefix(t, "Cannot accept upload of the f")
}

// vCheckPriv: the three obligations of C05 for one request.
//   effect  - the privileged effect happened
//   allowed - the governing privilege term over the requester's bitmap (and target kind)
func vCheckPriv(name string, e *vEnv, res []hotline.Transaction, effect bool, allowed bool) {
	if effect {
		vAssert(name+"_effect_requires_privilege", allowed)
	}
	if vIsDenial(res) {
		vAssert(name+"_denied_only_without_privilege", !allowed)
		vAssert(name+"_denial_is_the_only_outcome", len(res) == 1 && e.sideEffects(res) == 0)
		vAssert(name+"_denial_addressed_to_requester", res[0].ClientID == e.cc.ID)
	}
	if !allowed {
		vAssert(name+"_no_effect_without_privilege", !effect)
	}
	// correlation (C14): at most one reply, to the requester, carrying the request's ID
	nrep := 0
	for _, t := range res {
		if t.IsReply == 1 {
			nrep++
			vAssert(name+"_reply_goes_to_requester", t.ClientID == e.cc.ID)
		}
	}
	vAssert(name+"_at_most_one_reply", nrep <= 1)
}

func vPathField(items ...string) []byte {
	b := []byte{0, byte(len(items))}
	for _, it := range items {
		b = append(b, 0, 0, byte(len(it)))
		b = append(b, it...)
	}
	return b
}

func f(id [2]byte, data []byte) hotline.Field { return hotline.NewField(id, data) }

var c05Name = f(hotline.FieldFileName, []byte("target.txt"))

func c08U32(b []byte) int { return int(b[0])<<24 | int(b[1])<<16 | int(b[2])<<8 | int(b[3]) }
