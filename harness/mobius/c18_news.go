package mobius

import (
	"github.com/jhalter/mobius/hotline"
)

func c18U32(b [4]byte) uint32 {
	return uint32(b[0])<<24 | uint32(b[1])<<16 | uint32(b[2])<<8 | uint32(b[3])
}

// c18Store: one category "cat" holding two articles with arbitrary distinct non-zero 32-bit IDs.
func c18Store() (*ThreadedNewsYAML, uint32, uint32, *hotline.NewsArtData, *hotline.NewsArtData) {
	vfsReset()
	id1, id2 := vU32("id1"), vU32("id2")
	vAssume(id1 != 0 && id2 != 0 && id1 != id2)
	vAssume(id1 != 0xFFFFFFFF && id2 != 0xFFFFFFFF)
	a1 := &hotline.NewsArtData{Title: "t1", Poster: "p1", Data: "body1"}
	a2 := &hotline.NewsArtData{Title: "t2", Poster: "p2", Data: "body2"}
	copy(a1.FirstChildArt[:], vBytesN("a1.firstchild", 4))
	cat := hotline.NewsCategoryListData15{
		Type:     hotline.NewsCategory,
		Name:     "cat",
		Articles: map[uint32]*hotline.NewsArtData{},
		SubCats:  map[string]hotline.NewsCategoryListData15{},
	}
	cat.Articles[id1] = a1
	cat.Articles[id2] = a2
	n := &ThreadedNewsYAML{filePath: "/cfg/ThreadedNews.yaml"}
	n.ThreadedNews.Categories = map[string]hotline.NewsCategoryListData15{"cat": cat}
	return n, id1, id2, a1, a2
}

// Posting (top-level or as a reply to a present article): fresh ID, correct threading, nothing else disturbed.
func VH_C18_PostArticle_sym() {
	n, id1, id2, a1, a2 := c18Store()
	reply := vBool("is_reply")
	parent := uint32(0)
	if reply {
		parent = id1
	}
	oldFirstChild := a1.FirstChildArt
	max := id1
	if id2 > max {
		max = id2
	}
	art := hotline.NewsArtData{Title: string(vBytesEach("title", 2)), Poster: "me", Data: "new body"}
	err := n.PostArticle([]string{"cat"}, parent, art)
	vAssert("post_ok", err == nil)
	arts := n.ThreadedNews.Categories["cat"].Articles
	vAssert("count_is_three", len(arts) == 3)
	newID := max + 1
	vAssert("new_id_not_used_before", newID != id1 && newID != id2)
	na := arts[newID]
	vAssert("new_article_present_under_fresh_id", na != nil)
	if na != nil {
		vAssert("new_parent_recorded", c18U32(na.ParentArt) == parent)
		vAssert("new_linked_after_newest", c18U32(na.PrevArt) == max)
		vAssert("new_title_kept", na.Title == art.Title && na.Data == "new body" && na.Poster == "me")
	}
	// previously newest article points to the new one
	if max == id1 {
		vAssert("newest_next_link", c18U32(arts[id1].NextArt) == newID)
	} else {
		vAssert("newest_next_link", c18U32(arts[id2].NextArt) == newID)
	}
	// parent's first-child link set iff it had none
	if reply {
		if oldFirstChild == [4]byte{} {
			vAssert("parent_first_child_set", c18U32(arts[id1].FirstChildArt) == newID)
		} else {
			vAssert("parent_first_child_kept", arts[id1].FirstChildArt == oldFirstChild)
		}
	}
	// every other article still retrievable unchanged
	g1 := n.GetArticle([]string{"cat"}, id1)
	g2 := n.GetArticle([]string{"cat"}, id2)
	vAssert("old_articles_retrievable", g1 == a1 && g2 == a2)
	vAssert("old_content_unchanged", g1.Title == "t1" && g1.Poster == "p1" && g1.Data == "body1" && g2.Title == "t2" && g2.Poster == "p2" && g2.Data == "body2")
	// persisted before acknowledging
	vAssert("saved", vfs.find("/cfg/ThreadedNews.yaml") >= 0)
}

// Deleting an article removes exactly that article.
func VH_C18_DeleteArticle_sym() {
	n, id1, id2, _, a2 := c18Store()
	err := n.DeleteArticle([]string{"cat"}, id1, false)
	vAssert("delete_ok", err == nil)
	arts := n.ThreadedNews.Categories["cat"].Articles
	vAssert("deleted_gone", n.GetArticle([]string{"cat"}, id1) == nil)
	vAssert("other_kept", n.GetArticle([]string{"cat"}, id2) == a2 && len(arts) == 1)
	vAssert("saved", vfs.find("/cfg/ThreadedNews.yaml") >= 0)
}

// The article list: every present article once, ascending ID order, parseable, count = number present.
func VH_C18_ListArticles_sym() {
	n, id1, id2, _, _ := c18Store()
	d := n.ListArticles([]string{"cat"})
	vAssert("list_count", d.Count == 2)
	lo, hi := id1, id2
	if id2 < id1 {
		lo, hi = id2, id1
	}
	// reference decoder of the entry list: id(4) date(8) parent(4) flags(4) flavours(2) {len(1) text}x2 len(1) mime size(2)
	b := d.NewsArtList
	off := 0
	var ids []uint32
	for i := 0; i < 2; i++ {
		vAssert("entry_header_fits", off+22 <= len(b))
		ids = append(ids, uint32(b[off])<<24|uint32(b[off+1])<<16|uint32(b[off+2])<<8|uint32(b[off+3]))
		vAssert("entry_flavour_count_one", b[off+20] == 0 && b[off+21] == 1)
		off += 22
		tl := int(b[off])
		off += 1 + tl
		pl := int(b[off])
		off += 1 + pl
		ml := int(b[off])
		vAssert("entry_mime", ml == 10)
		off += 1 + ml + 2
	}
	vAssert("list_consumed_exactly", off == len(b))
	vAssert("list_ascending_complete", ids[0] == lo && ids[1] == hi)
}

// Category/bundle management: creating adds exactly the child, deleting removes exactly the named item, listings
// show exactly the children of a path.
func VH_C18_Groupings_sym() {
	n, _, _, _, _ := c18Store()
	err := n.CreateGrouping(nil, "bundle", hotline.NewsBundle)
	vAssert("create_ok", err == nil)
	err = n.CreateGrouping([]string{"bundle"}, "inner", hotline.NewsCategory)
	vAssert("create_nested_ok", err == nil)
	top := n.GetCategories(nil)
	vAssert("top_children", len(top) == 2 && top[0].Name == "bundle" && top[1].Name == "cat")
	in := n.GetCategories([]string{"bundle"})
	vAssert("nested_children", len(in) == 1 && in[0].Name == "inner" && in[0].Type == hotline.NewsCategory)
	vAssert("existing_category_untouched", len(n.ThreadedNews.Categories["cat"].Articles) == 2)
	// a category two bundles deep is found with its own type
	err = n.CreateGrouping([]string{"bundle"}, "b2", hotline.NewsBundle)
	vAssert("create_b2_ok", err == nil)
	err = n.CreateGrouping([]string{"bundle", "b2"}, "deep", hotline.NewsCategory)
	vAssert("create_deep_ok", err == nil)
	it := n.NewsItem([]string{"bundle", "b2", "deep"})
	vAssert("deep_item_found_with_its_type", it.Name == "deep" && it.Type == hotline.NewsCategory)
	it2 := n.NewsItem([]string{"bundle", "b2"})
	vAssert("bundle_item_found_with_its_type", it2.Name == "b2" && it2.Type == hotline.NewsBundle)
	err = n.DeleteNewsItem([]string{"bundle", "b2"})
	vAssert("delete_b2_ok", err == nil)
	err = n.DeleteNewsItem([]string{"bundle", "inner"})
	vAssert("delete_nested_ok", err == nil)
	vAssert("nested_gone", len(n.GetCategories([]string{"bundle"})) == 0)
	vAssert("others_kept", len(n.GetCategories(nil)) == 2)
	err = n.DeleteNewsItem([]string{"bundle"})
	vAssert("delete_top_ok", err == nil)
	top = n.GetCategories(nil)
	vAssert("only_cat_left", len(top) == 1 && top[0].Name == "cat" && len(top[0].Articles) == 2)
}

// c18Reloaded is what loading the saved document gives for one grouping, by the YAML library's contract on struct
// tags: a key that was written sets its field, a key that was left out leaves the field at its zero value.
func c18Reloaded(c hotline.NewsCategoryListData15) hotline.NewsCategoryListData15 {
	doc := vTagMap(c)
	var out hotline.NewsCategoryListData15
	if v, ok := doc["Type"]; ok {
		out.Type = v.([2]byte)
	}
	if v, ok := doc["Name"]; ok {
		out.Name = v.(string)
	}
	if v, ok := doc["Articles"]; ok {
		out.Articles = v.(map[uint32]*hotline.NewsArtData)
	}
	if v, ok := doc["SubCats"]; ok {
		out.SubCats = v.(map[string]hotline.NewsCategoryListData15)
	}
	return out
}

// A grouping created through the protocol, saved and loaded again is the same tree: an empty category is still a
// category one can post into, and an empty bundle one can create groupings in.
func VH_C18_EmptyGroupingSurvivesReload_sym() {
	vfsReset()
	n := &ThreadedNewsYAML{filePath: "/cfg/ThreadedNews.yaml"}
	n.ThreadedNews.Categories = map[string]hotline.NewsCategoryListData15{}
	kind := hotline.NewsCategory
	if vBool("bundle") {
		kind = hotline.NewsBundle
	}
	vAssert("create_ok", n.CreateGrouping(nil, "fresh", kind) == nil)
	before := n.ThreadedNews.Categories["fresh"]
	after := c18Reloaded(before)
	vAssert("reload_keeps_name_and_kind", after.Name == "fresh" && after.Type == kind)
	vAssert("reload_keeps_the_grouping_empty", len(after.Articles) == len(before.Articles) && len(after.SubCats) == len(before.SubCats))
	n.ThreadedNews.Categories["fresh"] = after
	if kind == hotline.NewsCategory {
		err := n.PostArticle([]string{"fresh"}, 0, hotline.NewsArtData{Title: "t", Poster: "p", Data: "d"})
		vAssert("post_after_reload_ok", err == nil)
		a := n.GetArticle([]string{"fresh"}, 1)
		vAssert("posted_article_retrievable_after_reload", a != nil && a.Title == "t")
	} else {
		vAssert("subgroup_after_reload_ok", n.CreateGrouping([]string{"fresh"}, "sub", hotline.NewsCategory) == nil)
		vAssert("subgroup_listed", len(n.GetCategories([]string{"fresh"})) == 1)
	}
}

func c18Try(fn func()) {
	defer func() { recover() }()
	fn()
}

// Requests whose path names something that is not there (a stale view after a bundle was deleted): the listing of
// such a path is empty, and a post or delete addressed below it never touches a category the request did not name -
// here the root category "cat", which has the same name as the last path component.
func VH_C18_PathThroughMissingGrouping_sym() {
	n, id1, id2, a1, a2 := c18Store()
	sub := hotline.NewsCategoryListData15{Type: hotline.NewsBundle, Name: "kept", SubCats: map[string]hotline.NewsCategoryListData15{}, Articles: map[uint32]*hotline.NewsArtData{}}
	n.ThreadedNews.Categories["kept"] = sub
	var listed []hotline.NewsCategoryListData15
	switch vChoice("request", 4) {
	case 0:
		c18Try(func() { listed = n.GetCategories([]string{"gone"}) })
		vAssert("listing_below_missing_grouping_is_empty", len(listed) == 0)
	case 1:
		c18Try(func() { n.DeleteArticle([]string{"gone", "cat"}, id1, false) })
	case 2:
		c18Try(func() { n.PostArticle([]string{"gone", "cat"}, 0, hotline.NewsArtData{Title: "t", Poster: "p", Data: "d"}) })
	default:
		c18Try(func() { n.CreateGrouping([]string{"gone"}, "new", hotline.NewsCategory) })
		vAssert("nothing_created_at_the_root_instead", len(n.ThreadedNews.Categories) == 2)
	}
	arts := n.ThreadedNews.Categories["cat"].Articles
	vAssert("unnamed_category_keeps_exactly_its_articles", len(arts) == 2 && arts[id1] == a1 && arts[id2] == a2)
	vAssert("unnamed_category_links_untouched", a1.NextArt == [4]byte{} && a2.NextArt == [4]byte{} && a1.PrevArt == [4]byte{} && a2.PrevArt == [4]byte{})
}
