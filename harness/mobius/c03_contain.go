package mobius

import (
	"github.com/jhalter/mobius/hotline"
)

// c03Contained runs one request the way the connection loop does (a fault in the handler is recovered and the
// connection dropped) and reports whether the handler faulted.
func c03Contained(h func(*hotline.ClientConn, *hotline.Transaction) []hotline.Transaction, cc *hotline.ClientConn, t *hotline.Transaction) (faulted bool) {
	defer func() {
		if r := recover(); r != nil {
			faulted = true
		}
	}()
	h(cc, t)
	return false
}

// A hostile request may make its own handler fault (the connection is then dropped), but it must not leave a
// shared lock held: every other client would block forever on its next request. Hostile fields: a chat ID that
// names no chat, user IDs / chat IDs of every length 0..4 with arbitrary bytes.
func VH_C03_NoLockLeftHeldAfterFault() {
	e := vNewEnv()
	e.cc.Account.Access = hotline.AccessBitmap{0xff, 0xff, 0xfe, 0xff, 0xff, 0xff, 0xff, 0xff}
	chat := e.srv.ChatMgr.New(e.other)
	_ = chat
	id := vBytesEach("hostile_id", 4)
	handlers := []func(*hotline.ClientConn, *hotline.Transaction) []hotline.Transaction{
		HandleSetChatSubject, HandleJoinChat, HandleLeaveChat, HandleRejectChatInvite, HandleChatSend,
		HandleInviteNewChat, HandleInviteToChat, HandleSendInstantMsg, HandleGetClientInfoText, HandleDisconnectUser,
	}
	types := []hotline.TranType{
		hotline.TranSetChatSubject, hotline.TranJoinChat, hotline.TranLeaveChat, hotline.TranRejectChatInvite, hotline.TranChatSend,
		hotline.TranInviteNewChat, hotline.TranInviteToChat, hotline.TranSendInstantMsg, hotline.TranGetClientInfoText, hotline.TranDisconnectUser,
	}
	k := vChoice("handler", 10)
	t := hotline.NewTransaction(types[k], e.cc.ID,
		f(hotline.FieldChatID, id), f(hotline.FieldUserID, id), f(hotline.FieldChatSubject, []byte("s")), f(hotline.FieldData, []byte("d")))
	vLocksHeld = 0
	c03Contained(handlers[k], e.cc, &t)
	vAssert("no_shared_lock_left_held_after_hostile_request", vLocksHeld == 0)
	// whatever the request started in the background runs outside the connection's recover: a fault there ends the
	// whole process, so it must not fault (reported as an uncaught panic)
	vRunSpawned()
	// and a well-behaved client is still served
	t2 := hotline.NewTransaction(hotline.TranGetUserNameList, e.other.ID)
	res := HandleGetUserNameList(e.other, &t2)
	vAssert("other_client_still_served", len(res) == 1 && res[0].IsReply == 1)
}

// Values a hostile client stores about itself (icon, name, options, auto-reply of any length) must not make the
// requests of other clients fault: the user list and client-info requests of a well-behaved client are answered.
func VH_C03_StoredHostileProfileDoesNotBreakOthers() {
	e := vNewEnv()
	e.other.Account.Access = hotline.AccessBitmap{0xff, 0xff, 0xff, 0xff, 0xff, 0xff, 0xff, 0xff}
	icon := vBytesEach("icon", 5)
	name := vBytesEach("name", 2)
	var t hotline.Transaction
	if vBool("via_agreed") {
		t = hotline.NewTransaction(hotline.TranAgreed, e.cc.ID, f(hotline.FieldUserIconID, icon), f(hotline.FieldUserName, name), f(hotline.FieldOptions, []byte{0, 0}))
		c03Contained(HandleTranAgreed, e.cc, &t)
	} else {
		t = hotline.NewTransaction(hotline.TranSetClientUserInfo, e.cc.ID, f(hotline.FieldUserIconID, icon), f(hotline.FieldUserName, name))
		c03Contained(HandleSetClientUserInfo, e.cc, &t)
	}
	t2 := hotline.NewTransaction(hotline.TranGetUserNameList, e.other.ID)
	faulted := c03Contained(HandleGetUserNameList, e.other, &t2)
	vAssert("user_list_of_other_client_not_broken", !faulted)
	t3 := hotline.NewTransaction(hotline.TranGetClientInfoText, e.other.ID, f(hotline.FieldUserID, e.cc.ID[:]))
	faulted = c03Contained(HandleGetClientInfoText, e.other, &t3)
	vAssert("client_info_of_other_client_not_broken", !faulted)
}

// A pending transfer a hostile client registered with a malformed size field (any length 0..5, the request is
// accepted as it is) must not make another client's request fault: an administrator asking for that user's info
// text - which lists the user's transfers with their progress - is answered.
func VH_C03_HostileTransferSizeDoesNotBreakClientInfo() {
	vUnroll(200)
	e := vNewEnv()
	e.srv.FileTransferMgr = hotline.NewMemFileTransferMgr()
	e.cc.ClientFileTransferMgr = hotline.NewClientFileTransferMgr()
	e.cc.Account.Access = hotline.AccessBitmap{0xff, 0xff, 0xff, 0xff, 0xff, 0xff, 0xff, 0xff}
	e.other.Account.Access = hotline.AccessBitmap{0xff, 0xff, 0xff, 0xff, 0xff, 0xff, 0xff, 0xff}
	size := vBytesEach("transfer_size_field", 5)
	fields := []hotline.Field{f(hotline.FieldFileName, []byte("x.bin")), f(hotline.FieldFilePath, vPathField("Uploads"))}
	if !vBool("size_field_absent") {
		fields = append(fields, f(hotline.FieldTransferSize, size))
	}
	folder := vBool("folder_upload")
	if folder {
		t := hotline.NewTransaction(hotline.TranUploadFldr, e.cc.ID, fields...)
		c03Contained(HandleUploadFolder, e.cc, &t)
	} else {
		vAssume(!e.fs.exists)
		t := hotline.NewTransaction(hotline.TranUploadFile, e.cc.ID, fields...)
		c03Contained(HandleUploadFile, e.cc, &t)
	}
	t3 := hotline.NewTransaction(hotline.TranGetClientInfoText, e.other.ID, f(hotline.FieldUserID, e.cc.ID[:]))
	faulted := c03Contained(HandleGetClientInfoText, e.other, &t3)
	vAssert("client_info_not_broken_by_a_malformed_transfer_size", !faulted)
}
