package mobius

import "github.com/jhalter/mobius/hotline"

// New-user request: whatever access bytes are requested, a created account's privileges are a subset of the creator's.
func VH_C06_NewUserSubset() {
	srv, cc := vNewServer()
	am := &vStubAM{}
	srv.AccountManager = am
	req := vBytesEach("req.access", 9)
	login := vBytes("req.login", 4)
	t := hotline.NewTransaction(hotline.TranNewUser, cc.ID,
		hotline.NewField(hotline.FieldUserLogin, login),
		hotline.NewField(hotline.FieldUserName, []byte("n")),
		hotline.NewField(hotline.FieldUserPassword, []byte("p")),
		hotline.NewField(hotline.FieldUserAccess, req),
	)
	res := HandleNewUser(cc, &t)
	vAssert("one_reply", len(res) == 1)
	vAssert("at_most_one_create", len(am.created) <= 1)
	for _, a := range am.created {
		for i := 0; i < 64; i++ {
			vAssert("created_subset_of_creator", !vBit(a.Access, i) || vBit(cc.Account.Access, i))
		}
		for i := 0; i < 8; i++ {
			want := byte(0)
			if i < len(req) {
				want = req[i]
			}
			vAssert("created_is_requested", a.Access[i] == want)
		}
		vAssert("create_needs_priv", vBit(cc.Account.Access, hotline.AccessCreateUser))
		vAssert("created_then_ok_reply", !vIsErrReply(res))
	}
	if len(am.created) == 0 {
		vAssert("refused_is_error", vIsErrReply(res))
		// never refused when entitled: creator may create users and requested is a subset
		sub := true
		for i := 0; i < 64; i++ {
			var rb hotline.AccessBitmap
			copy(rb[:], req)
			if vBit(rb, i) && !vBit(cc.Account.Access, i) {
				sub = false
			}
		}
		vAssert("not_refused_when_entitled", !(sub && vBit(cc.Account.Access, hotline.AccessCreateUser)))
	}
}

// Batched update-user, create branch (login does not exist): same subset rule.
func VH_C06_UpdateUserCreateSubset() {
	srv, cc := vNewServer()
	am := &vStubAM{}
	srv.AccountManager = am
	req := vBytesEach("req.access", 9)
	data := []byte{0, 4}
	data = append(data, vSubField(hotline.FieldUserLogin, []byte{0x9e, 0x9d})...) // obfuscated "ab"
	data = append(data, vSubField(hotline.FieldUserName, []byte("n"))...)
	data = append(data, vSubField(hotline.FieldUserPassword, []byte("p"))...)
	data = append(data, vSubField(hotline.FieldUserAccess, req)...)
	t := hotline.NewTransaction(hotline.TranUpdateUser, cc.ID, hotline.NewField(hotline.FieldData, data))
	res := HandleUpdateUser(cc, &t)
	vAssert("one_reply", len(res) == 1)
	vAssert("at_most_one_create", len(am.created) <= 1)
	vAssert("no_update_no_delete", len(am.updated) == 0 && len(am.deleted) == 0)
	for _, a := range am.created {
		for i := 0; i < 64; i++ {
			vAssert("created_subset_of_creator", !vBit(a.Access, i) || vBit(cc.Account.Access, i))
		}
		for i := 0; i < 8; i++ {
			want := byte(0)
			if i < len(req) {
				want = req[i]
			}
			vAssert("created_is_requested", a.Access[i] == want)
		}
		vAssert("create_needs_priv", vBit(cc.Account.Access, hotline.AccessCreateUser))
	}
	if len(am.created) == 0 {
		vAssert("refused_is_error", vIsErrReply(res))
	}
}

// Disconnect request against a target marked cannot-be-disconnected: no ban, no disconnect, no message to the target.
func VH_C06_ProtectedTarget() {
	srv, cc := vNewServer()
	ban := &vStubBan{}
	srv.BanList = ban
	target := vNewClient(srv, "victim")
	// a third, protected user connected from the same address as the target (NAT, same host): never collateral damage
	bystander := vNewClient(srv, "bystander")
	bystander.Account.Access[2] |= 0x01 // cannot be disconnected (bit 23)
	var fields []hotline.Field
	fields = append(fields, hotline.NewField(hotline.FieldUserID, target.ID[:]))
	if vBool("has_options") {
		fields = append(fields, hotline.NewField(hotline.FieldOptions, vBytesN("options", 2)))
	}
	t := hotline.NewTransaction(hotline.TranDisconnectUser, cc.ID, fields...)
	res := HandleDisconnectUser(cc, &t)
	protected := vBit(target.Account.Access, hotline.AccessCannotBeDiscon)
	mayKick := vBit(cc.Account.Access, hotline.AccessDisconUser)
	toTarget := 0
	for _, r := range res {
		if r.ClientID == target.ID {
			toTarget++
		}
	}
	if protected || !mayKick {
		vAssert("protected_no_ban", len(ban.added) == 0)
		vAssert("protected_no_disconnect", vSpawnCount() == 0)
		vAssert("protected_no_message", toTarget == 0)
		vAssert("protected_error_reply", vIsErrReply(res))
	} else {
		vAssert("unprotected_is_disconnected", vSpawnCount() == 1)
		vAssert("unprotected_ok_reply", len(res) >= 1 && !vIsErrReply(res[len(res)-1:]))
		n := vRunSpawned()
		vAssert("disconnect_ran", n == 1)
		vAssert("target_removed", srv.ClientMgr.Get(target.ID) == nil)
		vAssert("target_conn_closed", target.Connection.(*vConn).closed == 1)
	}
	vAssert("protected_bystander_at_the_same_address_stays", srv.ClientMgr.Get(bystander.ID) == bystander && bystander.Connection.(*vConn).closed == 0)
}

// History: a user edits the account it is logged in with (gives privileges up), then asks for a new account. The
// creator's privileges that count are those of its account after the edit: the new account never gets a privilege
// the creator's account now lacks. Two further sessions of the same account are connected as well; every session of
// the edited account works with the new privileges from then on.
func VH_C06_CreatorAfterEditingItself() {
	srv, cc := vNewServer()
	s2 := vNewClient(srv, "me")
	other := vNewClient(srv, "other")
	otherAccess := other.Account.Access
	am := &vStubAM{getResult: &hotline.Account{Login: "me", Name: "me", Password: "H:zzpw", Access: cc.Account.Access}}
	srv.AccountManager = am
	vAssume(vBit(cc.Account.Access, hotline.AccessModifyUser))
	newAccess := vBytesN("access_after_edit", 8)
	st := hotline.NewTransaction(hotline.TranSetUser, cc.ID, f(hotline.FieldUserLogin, []byte{255 - 'm', 255 - 'e'}), f(hotline.FieldUserName, []byte("me")),
		f(hotline.FieldUserAccess, newAccess), f(hotline.FieldUserPassword, []byte{0}))
	res := HandleSetUser(cc, &st)
	vAssert("edit_done", len(am.updated) == 1 && len(res) >= 1 && !vIsErrReply(res[len(res)-1:]))
	var want hotline.AccessBitmap
	copy(want[:], newAccess)
	vAssert("requesting_session_has_the_new_privileges", cc.Account.Access == want)
	vAssert("second_session_has_the_new_privileges", s2.Account.Access == want)
	vAssert("other_accounts_untouched", other.Account.Access == otherAccess)
	// now the same client asks for a new account
	am.getResult = nil
	req := vBytesN("req.access", 8)
	t := hotline.NewTransaction(hotline.TranNewUser, cc.ID, f(hotline.FieldUserLogin, []byte("nu")), f(hotline.FieldUserName, []byte("n")),
		f(hotline.FieldUserPassword, []byte("p")), f(hotline.FieldUserAccess, req))
	HandleNewUser(cc, &t)
	for _, a := range am.created {
		for i := 0; i < 64; i++ {
			vAssert("created_subset_of_creators_account_after_the_edit", !vBit(a.Access, i) || vBit(want, i))
		}
	}
}
