package mobius

import (
	"github.com/jhalter/mobius/hotline"
)

func c07Within(root, p string) bool {
	if len(p) < len(root) || p[:len(root)] != root {
		return false
	}
	if len(p) > len(root) && p[len(root)] != '/' {
		return false
	}
	for i := 0; i+1 < len(p); i++ {
		if p[i] == '.' && p[i+1] == '.' && (i == 0 || p[i-1] == '/') && (i+2 == len(p) || p[i+2] == '/') {
			return false
		}
	}
	return true
}

func c07Env() *vEnv {
	e := vNewEnv()
	e.cc.Account.Access = hotline.AccessBitmap{0xff, 0xff, 0xff, 0xff, 0xff, 0xff, 0xff, 0xff}
	// this client's account has its own file root (the server-wide one is /srv): everything must stay inside /r
	e.cc.Account.FileRoot = "/r"
	e.srv.Config.FileRoot = "/srv"
	return e
}

// create-folder assembles its own path from the path field and the name
func VH_C07_NewFolderPath() {
	vUnroll(200)
	e := c07Env()
	vAssume(!e.fs.exists)
	item := vBytesEach("item", 2)
	name := vBytesEach("name", 3)
	t := hotline.NewTransaction(hotline.TranNewFolder, e.cc.ID, f(hotline.FieldFileName, name), f(hotline.FieldFilePath, vPathField(string(item))))
	HandleNewFolder(e.cc, &t)
	for _, p := range e.fs.mkdirs {
		vAssert("newfolder_mkdir_in_root", c07Within("/r", p))
	}
	for _, p := range e.fs.stats {
		vAssert("newfolder_stat_in_root", c07Within("/r", p))
	}
}

// rename through set-file-info: whatever the new name bytes are, every rename target stays inside the root
func VH_C07_RenameTarget_sym() {
	vUnroll(200)
	e := c07Env()
	vAssume(e.fs.exists)
	newName := vBytesEach("newname", 3)
	// the file sits directly in the file root, so a new name of ".." already points outside it
	t := hotline.NewTransaction(hotline.TranSetFileInfo, e.cc.ID, c05Name, f(hotline.FieldFileNewName, newName))
	HandleSetFileInfo(e.cc, &t)
	for _, p := range e.fs.renameTo {
		vAssert("rename_target_in_root", c07Within("/r", p))
	}
	for _, p := range e.fs.renamed {
		vAssert("rename_source_in_root", c07Within("/r", p))
	}
	for _, op := range vfsLog {
		if op.kind == "rename" {
			vAssert("folder_rename_target_in_root", c07Within("/r", op.to) && c07Within("/r", op.name))
		}
	}
}

// move, delete, alias: every path handed to the file store stays inside the root. One of the three client-supplied
// strings (name, path item, destination item) is arbitrary bytes of every length up to 2 (so "..", "/", "." ... are
// covered in every position), the other two are plain names.
func c07FileOp(op, hostile int) {
	vUnroll(200)
	e := c07Env()
	vAssume(e.fs.exists)
	name, item, dest := []byte("a"), []byte("b"), []byte("c")
	switch hostile {
	case 0:
		name = vBytesEach("name", 2)
	case 3:
		// ".incomplete" is special to the file wrapper: names ending in it, the part before it drawn from the bytes
		// the path code distinguishes plus one ordinary byte (each case on its own)
		pre := vBytesEach("name_prefix", 3)
		for i, b := range pre {
			vAssume(b == '.' || b == '/' || b == 'a')
			pre[i] = byte(vConcrete(int(b)))
		}
		name = append(append([]byte(nil), pre...), ".incomplete"...)
	case 1:
		item = vBytesEach("item", 2)
	default:
		dest = vBytesEach("dest", 2)
	}
	fields := []hotline.Field{f(hotline.FieldFileName, name), f(hotline.FieldFilePath, vPathField(string(item))), f(hotline.FieldFileNewPath, vPathField(string(dest)))}
	switch op {
	case 0:
		t := hotline.NewTransaction(hotline.TranMoveFile, e.cc.ID, fields...)
		HandleMoveFile(e.cc, &t)
	case 1:
		t := hotline.NewTransaction(hotline.TranDeleteFile, e.cc.ID, fields...)
		HandleDeleteFile(e.cc, &t)
	default:
		t := hotline.NewTransaction(hotline.TranMakeFileAlias, e.cc.ID, fields...)
		HandleMakeAlias(e.cc, &t)
	}
	all := append(append(append(append(append([]string(nil), e.fs.removed...), e.fs.renamed...), e.fs.renameTo...), e.fs.links...), e.fs.linkTo...)
	for _, p := range all {
		vAssert("file_op_path_in_root", c07Within("/r", p))
	}
	for _, p := range e.fs.stats {
		vAssert("file_op_stat_path_in_root", c07Within("/r", p))
	}
}

func VH_C07_MoveTargetsHostileName()   { c07FileOp(0, 0) }
func VH_C07_MoveTargetsSuffixName()    { c07FileOp(0, 3) }
func VH_C07_DeleteTargetsSuffixName()  { c07FileOp(1, 3) }
func VH_C07_MoveTargetsHostileItem()   { c07FileOp(0, 1) }
func VH_C07_MoveTargetsHostileDest()   { c07FileOp(0, 2) }
func VH_C07_DeleteTargetsHostileName() { c07FileOp(1, 0) }
func VH_C07_DeleteTargetsHostileItem() { c07FileOp(1, 1) }
func VH_C07_AliasTargetsHostileName()  { c07FileOp(2, 0) }
func VH_C07_AliasTargetsHostileItem()  { c07FileOp(2, 1) }
func VH_C07_AliasTargetsHostileDest()  { c07FileOp(2, 2) }

// account files: whatever the login / new login bytes are, every file the account manager touches lies inside
// the accounts directory
func VH_C07_AccountPaths_sym() {
	vUnroll(200)
	vfsReset()
	vfs.put("/cfg/Users/bob.yaml", []byte("doc"))
	am := &YAMLAccountManager{accountDir: "/cfg/Users", accounts: map[string]hotline.Account{"bob": {Login: "bob"}}}
	login := string(vBytesEach("login", 4))
	switch vChoice("op", 4) {
	case 0:
		am.Create(hotline.Account{Login: login})
	case 1:
		am.Update(hotline.Account{Login: "bob"}, login)
	case 2:
		// an account whose (earlier accepted) login is hostile is renamed to a harmless one
		am.accounts[login] = hotline.Account{Login: login}
		am.Update(hotline.Account{Login: login}, "new")
	default:
		am.Delete(login)
	}
	for _, op := range vfsLog {
		vAssert("account_file_in_accounts_dir", c07Within("/cfg/Users", op.name))
		if op.kind == "rename" || op.kind == "failed:rename" {
			vAssert("account_rename_target_in_accounts_dir", c07Within("/cfg/Users", op.to))
		}
	}
}

// Requests that name the file root itself (no path, empty or one-byte name): every path the server reads, stats,
// writes, renames or removes - including the fork side files derived from the name - stays inside the root.
func VH_C07_RequestsNamingTheRoot_sym() {
	vUnroll(200)
	e := c07Env()
	vAssume(e.fs.exists)
	name := vBytesEach("name", 1)
	nameField := f(hotline.FieldFileName, name)
	switch vChoice("op", 5) {
	case 0:
		t := hotline.NewTransaction(hotline.TranSetFileInfo, e.cc.ID, nameField, f(hotline.FieldFileComment, []byte("c")))
		HandleSetFileInfo(e.cc, &t)
	case 1:
		t := hotline.NewTransaction(hotline.TranDeleteFile, e.cc.ID, nameField)
		HandleDeleteFile(e.cc, &t)
	case 2:
		t := hotline.NewTransaction(hotline.TranGetFileInfo, e.cc.ID, nameField)
		HandleGetFileInfo(e.cc, &t)
	case 3:
		t := hotline.NewTransaction(hotline.TranDownloadFile, e.cc.ID, nameField)
		HandleDownloadFile(e.cc, &t)
	default:
		t := hotline.NewTransaction(hotline.TranMoveFile, e.cc.ID, nameField, f(hotline.FieldFileNewPath, vPathField("dest")))
		HandleMoveFile(e.cc, &t)
	}
	for _, op := range vfsLog {
		vAssert("root_request_written_path_in_root", c07Within("/r", op.name))
	}
	all := append(append(append(append([]string(nil), e.fs.removed...), e.fs.renamed...), e.fs.renameTo...), e.fs.written...)
	for _, p := range all {
		vAssert("root_request_changed_path_in_root", c07Within("/r", p))
	}
	for _, p := range e.fs.stats {
		vAssert("root_request_read_path_in_root", c07Within("/r", p))
	}
}

// Names carrying the partial-upload suffix, addressed to the file root itself (no path): "..", "." or "/" in front
// of ".incomplete" must not take any read, stat, rename or removal out of the root either.
func VH_C07_PartialSuffixNamesAtRoot_sym() {
	vUnroll(200)
	e := c07Env()
	vAssume(e.fs.exists)
	pre := vBytesEach("name_prefix", 3)
	for i, b := range pre { // the bytes the path code distinguishes, and one ordinary byte; each case run on its own
		vAssume(b == '.' || b == '/' || b == 'a')
		pre[i] = byte(vConcrete(int(b)))
	}
	name := append(append([]byte(nil), pre...), ".incomplete"...)
	nameField := f(hotline.FieldFileName, name)
	switch vChoice("op", 3) {
	case 0:
		t := hotline.NewTransaction(hotline.TranDeleteFile, e.cc.ID, nameField)
		HandleDeleteFile(e.cc, &t)
	case 1:
		t := hotline.NewTransaction(hotline.TranGetFileInfo, e.cc.ID, nameField)
		HandleGetFileInfo(e.cc, &t)
	default:
		t := hotline.NewTransaction(hotline.TranMoveFile, e.cc.ID, nameField, f(hotline.FieldFileNewPath, vPathField("dest")))
		HandleMoveFile(e.cc, &t)
	}
	for _, op := range vfsLog {
		vAssert("suffix_name_written_path_in_root", c07Within("/r", op.name))
	}
	all := append(append(append(append([]string(nil), e.fs.removed...), e.fs.renamed...), e.fs.renameTo...), e.fs.written...)
	for _, p := range all {
		vAssert("suffix_name_changed_path_in_root", c07Within("/r", p))
	}
	for _, p := range e.fs.stats {
		vAssert("suffix_name_read_path_in_root", c07Within("/r", p))
	}
}

// The transfer a download/upload request registers is resolved later, on the transfer connection, from the root
// stored in it: for an account with its own file root that stored root is the account's, never the server-wide one,
// for each of the four requests that register a file or folder transfer.
func VH_C07_TransfersRegisteredUnderOwnRoot() {
	vUnroll(200)
	e := c07Env()
	k := vChoice("request", 4)
	e.fs.isDir = k >= 2 // folder requests address a folder
	fields := []hotline.Field{f(hotline.FieldFileName, []byte("a")), f(hotline.FieldFilePath, vPathField("b")), f(hotline.FieldTransferSize, []byte{0, 0, 0, 9})}
	switch k {
	case 0:
		vAssume(e.fs.exists)
		t := hotline.NewTransaction(hotline.TranDownloadFile, e.cc.ID, fields...)
		HandleDownloadFile(e.cc, &t)
	case 1:
		vAssume(!e.fs.exists)
		t := hotline.NewTransaction(hotline.TranUploadFile, e.cc.ID, fields...)
		HandleUploadFile(e.cc, &t)
	case 2:
		vAssume(e.fs.exists)
		t := hotline.NewTransaction(hotline.TranDownloadFldr, e.cc.ID, fields...)
		HandleDownloadFolder(e.cc, &t)
	default:
		t := hotline.NewTransaction(hotline.TranUploadFldr, e.cc.ID, fields...)
		HandleUploadFolder(e.cc, &t)
	}
	vAssert("transfer_registered", len(e.ftm.added) == 1)
	for _, ft := range e.ftm.added {
		vAssert("transfer_root_is_the_accounts_own_root", ft.FileRoot == "/r")
	}
}
