package hotline

// Privilege number -> account-file key, written from the Hotline 1.9 protocol document's privilege list
// (with the known correction that "send private message" is privilege 40; 19 and 41..63 are undefined).
var c16Names = map[int]string{
	0: "DeleteFile", 1: "UploadFile", 2: "DownloadFile", 3: "RenameFile", 4: "MoveFile",
	5: "CreateFolder", 6: "DeleteFolder", 7: "RenameFolder", 8: "MoveFolder", 9: "ReadChat",
	10: "SendChat", 11: "OpenChat", 12: "CloseChat", 13: "ShowInList", 14: "CreateUser",
	15: "DeleteUser", 16: "OpenUser", 17: "ModifyUser", 18: "ChangeOwnPass",
	20: "NewsReadArt", 21: "NewsPostArt", 22: "DisconnectUser", 23: "CannotBeDisconnected",
	24: "GetClientInfo", 25: "UploadAnywhere", 26: "AnyName", 27: "NoAgreement",
	28: "SetFileComment", 29: "SetFolderComment", 30: "ViewDropBoxes", 31: "MakeAlias",
	32: "Broadcast", 33: "NewsDeleteArt", 34: "NewsCreateCat", 35: "NewsDeleteCat",
	36: "NewsCreateFldr", 37: "NewsDeleteFldr", 38: "UploadFolder", 39: "DownloadFolder",
	40: "SendPrivMsg",
}

func c16Bitmap(name string) AccessBitmap {
	var b AccessBitmap
	raw := vBytesN(name, 8)
	copy(b[:], raw)
	return b
}

// refBit: privilege i = bit i counted from the most significant bit of byte 0.
func c16RefBit(b AccessBitmap, i int) bool { return b[i/8]&(0x80>>uint(i%8)) != 0 }

// Save then load (named form): every defined privilege preserved, no other granted. One query covers all 2^64 bitmaps.
func VH_C16_RoundTrip() {
	b := c16Bitmap("bits")
	out, err := b.MarshalYAML()
	vAssert("marshal_ok", err == nil)
	m := vTagMap(out)
	var b2 AccessBitmap
	err = b2.UnmarshalYAML(func(v interface{}) error {
		*(v.(*interface{})) = m
		return nil
	})
	vAssert("unmarshal_ok", err == nil)
	for i := 0; i < 64; i++ {
		if name, ok := c16Names[i]; ok {
			vAssert("preserved_"+name, c16RefBit(b2, i) == c16RefBit(b, i))
		} else {
			vAssert("undefined_bit_not_granted", !c16RefBit(b2, i))
		}
	}
	vObserveBytes("loaded", b2[:])
}

// IsSet / Set agree with the wire definition of bit i for every bitmap.
func VH_C16_IsSetSet() {
	b := c16Bitmap("bits")
	for i := 0; i < 64; i++ {
		vAssert("isset_is_wire_bit", b.IsSet(i) == c16RefBit(b, i))
	}
	for i := 0; i < 64; i++ {
		c := b
		c.Set(i)
		vAssert("set_sets_bit", c16RefBit(c, i))
		for j := 0; j < 64; j++ {
			if j != i {
				vAssert("set_leaves_others", c16RefBit(c, j) == c16RefBit(b, j))
			}
		}
	}
}

// Each privilege is stored under exactly the key the protocol table gives it, and loading that key sets that bit only.
func VH_C16_NameTable() {
	for i := 0; i < 64; i++ {
		name, defined := c16Names[i]
		var b AccessBitmap
		b[i/8] = 0x80 >> uint(i%8)
		out, _ := b.MarshalYAML()
		m := vTagMap(out)
		n := 0
		for k, v := range m {
			set, isBool := v.(bool)
			vAssert("flag_is_bool", isBool)
			if set {
				n++
				vAssert("key_for_bit_"+name, defined && k == name)
			}
		}
		if defined {
			vAssert("bit_has_key_"+name, n == 1)
			// loading {name: true} alone grants exactly privilege i
			var b2 AccessBitmap
			b2.UnmarshalYAML(func(v interface{}) error {
				*(v.(*interface{})) = map[string]interface{}{name: true}
				return nil
			})
			for j := 0; j < 64; j++ {
				vAssert("load_key_"+name, c16RefBit(b2, j) == (j == i))
			}
		} else {
			vAssert("undefined_bit_has_no_key", n == 0)
		}
	}
}

// Legacy numeric-array form loads to the same bytes, hence the same privileges as its named form.
func VH_C16_LegacyArray() {
	var arr []interface{}
	var want AccessBitmap
	for i := 0; i < 8; i++ {
		x := int(vU8("a"))
		arr = append(arr, x)
		want[i] = byte(x)
	}
	var b AccessBitmap
	err := b.UnmarshalYAML(func(v interface{}) error {
		*(v.(*interface{})) = arr
		return nil
	})
	vAssert("legacy_ok", err == nil)
	for i := 0; i < 64; i++ {
		vAssert("legacy_same_bits", c16RefBit(b, i) == c16RefBit(want, i))
	}
	// and its named form round-trips to the same defined privileges
	out, _ := b.MarshalYAML()
	m := vTagMap(out)
	var b2 AccessBitmap
	b2.UnmarshalYAML(func(v interface{}) error {
		*(v.(*interface{})) = m
		return nil
	})
	for i := 0; i < 64; i++ {
		if _, ok := c16Names[i]; ok {
			vAssert("legacy_named_same", c16RefBit(b2, i) == c16RefBit(want, i))
		}
	}
}
