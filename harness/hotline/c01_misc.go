package hotline

// ---- account record (as listed to administrators): count(2) fields name, login(obfuscated), access[, password marker]

func VH_C01_AccountRecord_sym() {
	hasPw := vBool("has_password")
	a := &Account{Login: vString("login", 8), Name: vString("name", 40)}
	copy(a.Access[:], vBytesN("access", 8))
	if hasPw {
		a.Password = "H:zzsecret"
	} else {
		a.Password = "H:zz"
	}
	var fields [][]byte
	fields = append(fields, refField(0, 0x66, []byte(a.Name)))
	obf := make([]byte, len(a.Login))
	for i := 0; i < 8; i++ {
		if i < len(a.Login) {
			obf[i] = 255 - a.Login[i]
		}
	}
	fields = append(fields, refField(0, 0x69, obf))
	fields = append(fields, refField(0, 0x6e, a.Access[:]))
	if hasPw {
		fields = append(fields, refField(0, 0x6a, []byte("x")))
	}
	ref := refU16(len(fields))
	for _, f := range fields {
		ref = append(ref, f...)
	}
	enc := vEnc{a.Read, func(o int) { a.readOffset = o }, func() int { return a.readOffset }}
	c01Layout(enc, ref, 2000)
}

func VH_C01_AccountRecordDrain_sym() {
	a := &Account{Login: string(vBytesEach("login", 3)), Name: string(vBytesEach("name", 3)), Password: "H:zz"}
	hasPassword := vBool("account_has_a_password")
	if hasPassword {
		a.Password = "H:zzpw"
	}
	copy(a.Access[:], vBytesN("access", 8))
	var ref []byte
	if hasPassword {
		ref = append(ref, 0, 4)
	} else {
		ref = append(ref, 0, 3)
	}
	ref = append(ref, refField(0, 0x66, []byte(a.Name))...)
	obf := make([]byte, len(a.Login))
	for i := 0; i < 8; i++ {
		if i < len(a.Login) {
			obf[i] = 255 - a.Login[i]
		}
	}
	ref = append(ref, refField(0, 0x69, obf)...)
	ref = append(ref, refField(0, 0x6e, a.Access[:])...)
	if hasPassword {
		ref = append(ref, refField(0, 0x6a, []byte("x"))...) // the password marker
	}
	c01DrainStep(vEnc{a.Read, func(o int) { a.readOffset = o }, func() int { return a.readOffset }}, ref, 2000)
}

// ---- file path: count(2) {00 00 len(1) name}* : decoder against the reference encoder, all name lengths 0..255

func VH_C01_FilePathDecode() {
	n := vChoice("items", 3)
	data := refU16(n)
	var names [][]byte
	for i := 0; i < n; i++ {
		var nm []byte
		if i == n-1 {
			nm = vBytes("name", 255)
		} else {
			nm = vBytesEach("name_small", 2)
		}
		names = append(names, nm)
		data = append(data, 0, 0, byte(len(nm)))
		data = append(data, nm...)
	}
	var fp FilePath
	_, err := fp.Write(data)
	vAssert("decode_ok", err == nil)
	vAssert("count", len(fp.Items) == n && int(fp.Len()) == n)
	for i := 0; i < n && i < len(fp.Items); i++ {
		vAssert("item_len", int(fp.Items[i].Len) == len(names[i]))
		vAssertEqBytes("item_name", fp.Items[i].Name, names[i])
	}
}

// ---- tracker server record: ip(4) port(2) users(2) rsvd(2) nameLen(1) name descLen(1) desc ---------------------

func VH_C01_ServerRecordDecode() {
	name := vBytes("name", 255)
	desc := vBytes("desc", 255)
	hdr := vBytesN("hdr", 10)
	b := append([]byte(nil), hdr...)
	b = append(b, byte(len(name)))
	b = append(b, name...)
	b = append(b, byte(len(desc)))
	b = append(b, desc...)
	// the splitter delivers exactly this record from a longer stream
	stream := append(append([]byte(nil), b...), vBytes("tail", 20)...)
	adv, tok, err := serverScanner(stream, false)
	vAssert("split_ok", err == nil && adv == len(b))
	vAssertEqBytes("split_token", tok, b)
	var s ServerRecord
	n, werr := s.Write(b)
	if len(b) >= 13 {
		vAssert("decode_ok", werr == nil && n == len(b))
		vAssertEqBytes("ip", s.IPAddr[:], hdr[0:4])
		vAssertEqBytes("port", s.Port[:], hdr[4:6])
		vAssertEqBytes("users", s.NumUsers[:], hdr[6:8])
		vAssertEqBytes("name", s.Name, name)
		vAssertEqBytes("desc", s.Description, desc)
	}
}

// ---- handshake (12 bytes) and transfer preamble (16 bytes) decode --------------------------------------------

func VH_C01_HandshakeDecode() {
	b := vBytesN("hs", 12)
	var h handshake
	n, err := h.Write(b)
	vAssert("ok", err == nil && n == 12)
	vAssertEqBytes("protocol", h.Protocol[:], b[0:4])
	vAssertEqBytes("sub", h.SubProtocol[:], b[4:8])
	vAssertEqBytes("ver", h.Version[:], b[8:10])
	vAssertEqBytes("subver", h.SubVersion[:], b[10:12])
	isValid := b[0] == 'T' && b[1] == 'R' && b[2] == 'T' && b[3] == 'P' && b[4] == 'H' && b[5] == 'O' && b[6] == 'T' && b[7] == 'L'
	vAssert("valid_iff_trtp_hotl", h.Valid() == isValid)
}

func VH_C01_TransferDecode() {
	b := vBytesN("tf", 16)
	var t transfer
	n, err := t.Write(b)
	isHTXF := b[0] == 'H' && b[1] == 'T' && b[2] == 'X' && b[3] == 'F'
	vAssert("ok_iff_htxf", (err == nil) == isHTXF)
	if err == nil {
		vAssert("n", n == 16)
		vAssertEqBytes("ref", t.ReferenceNumber[:], b[4:8])
		vAssertEqBytes("size", t.DataSize[:], b[8:12])
	}
}

// Folder-upload item header, decoding side: a one-item path whose name has any length the one-byte prefix allows
// (1..255) decodes to exactly that name (every length is run as its own case; the name is plain letters so that the
// path cleaning after decoding is the identity).
func VH_C01_FolderItemPathEveryNameLength() {
	vUnroll(300)
	n := vInt("name_length")
	vAssume(n >= 1 && n <= 255)
	n = vConcrete(n)
	name := make([]byte, n)
	for i := range name {
		name[i] = 'a' + byte(i%26)
	}
	fu := folderUpload{PathItemCount: [2]byte{0, 1}}
	fu.FileNamePath = append([]byte{0, 0, byte(n)}, name...)
	got := fu.FormattedPath()
	vAssert("folder_item_name_decoded", got == "/"+string(name))
}
