package hotline

import (
	"bufio"
	"io"
	"path/filepath"
)

// 12-byte handshake: outcome and reply bytes depend only on the bytes, not on the partition into reads.
func VH_C02_HandshakeChunks() {
	data := vBytesN("hs", 12)
	a := &vRW{r: &vChunkReader{data: data}}
	b := &vRW{r: &vChunkReader{data: data, whole: true}}
	errA := performHandshake(a)
	errB := performHandshake(b)
	vAssert("handshake_same_outcome", (errA == nil) == (errB == nil))
	vAssertEqBytes("handshake_same_reply", a.out, b.out)
	vObserveBool("okA", errA == nil)
}

// 16-byte transfer preamble through the real io.CopyN path of handleFileTransfer.
func VH_C02_TransferPreambleChunks_quick()    { c02Preamble(3) }
func VH_C02_TransferPreambleChunks_thorough() { c02Preamble(0) }

func c02Preamble(cuts int) {
	data := vBytesN("tf", 16)
	var ta, tb transfer
	_ = ta
	_ = tb
	// the transfer connection's entry: the first observable decision after the preamble is the reference lookup
	srvA, _ := NewServer()
	srvB, _ := NewServer()
	errA := srvA.handleFileTransfer(nil, &vRW{r: &vChunkReader{data: data, cuts: cuts}})
	errB := srvB.handleFileTransfer(nil, &vRW{r: &vChunkReader{data: data, whole: true}})
	vAssert("preamble_same_outcome", (errA == nil) == (errB == nil))
	isHTXF := data[0] == 'H' && data[1] == 'T' && data[2] == 'X' && data[3] == 'F'
	if isHTXF {
		vAssert("preamble_htxf_reaches_lookup", errA != nil && errA.Error() == "invalid transaction ID")
	}
	vObserveBool("okA", errA == nil)
}

// The same through the connection handler's entry (reference number lookup is the first thing after decoding).
func VH_C02_FileTransferEntryChunks() {
	srv, _ := NewServer()
	data := []byte{'H', 'T', 'X', 'F', 0, 0, 0, 9, 0, 0, 0, 0, 0, 0, 0, 0}
	// unknown reference number: the handler must answer "invalid transaction ID" however the bytes arrive
	err := srv.handleFileTransfer(nil, &vRW{r: &vChunkReader{data: data, cuts: 3}})
	vAssert("entry_decoded_whole_preamble", err != nil && err.Error() == "invalid transaction ID")
}

// ---- prefix stability of the split functions (with bufio.Scanner's contract this gives chunk independence) ----

func c02PrefixStable(split bufio.SplitFunc, maxLen int) {
	data := vBytes("data", maxLen)
	// well-formed sessions: the 32-bit size field of a frame is far below 2^31 (frames are at most 64 KiB)
	if len(data) >= 16 {
		vAssume(data[12] < 0x80)
	}
	m := vInt("m")
	vAssume(0 <= m && m <= len(data))
	advS, tokS, errS := split(data[:m], false)
	advL, tokL, errL := split(data, false)
	vAssert("split_no_error", errS == nil && errL == nil)
	vAssert("split_advance_in_range", 0 <= advS && advS <= m)
	if tokS != nil {
		vAssert("split_token_implies_progress", advS > 0)
		vAssert("split_prefix_stable_advance", advL == advS)
		vAssertEqBytes("split_prefix_stable_token", tokL, tokS)
	} else {
		vAssert("split_need_more_consumes_nothing", advS == 0)
	}
}

func VH_C02_TransactionScannerStable() { c02PrefixStable(transactionScanner, 70000) }
func VH_C02_FieldScannerStable()       { c02PrefixStable(FieldScanner, 70000) }

// framing agrees with the reference: token = 20 + total size bytes, for every header
func VH_C02_TransactionScannerFrames() {
	data := vBytes("data", 70000)
	if len(data) >= 16 {
		vAssume(data[12] < 0x80)
	}
	adv, tok, err := transactionScanner(data, false)
	vAssert("no_error", err == nil)
	if len(data) >= 16 {
		total := int(data[12])<<24 | int(data[13])<<16 | int(data[14])<<8 | int(data[15])
		if 20+total <= len(data) {
			vAssert("frame_len", adv == 20+total)
			vAssertEqBytes("frame_token", tok, data[:20+total])
		} else {
			vAssert("need_more", adv == 0 && tok == nil)
		}
	} else {
		vAssert("need_more_short", adv == 0 && tok == nil)
	}
}

// ---- the real bufio.Scanner over a chunked connection: same token sequence as whole delivery -----------------

func c02Tokens(r io.Reader, max int) (toks [][]byte, err error) {
	sc := bufio.NewScanner(r)
	sc.Split(transactionScanner)
	for i := 0; i < max && sc.Scan(); i++ {
		toks = append(toks, append([]byte(nil), sc.Bytes()...))
	}
	return toks, sc.Err()
}

func VH_C02_ScannerChunks() {
	// two transactions back to back: the first with a payload of every length 0..2, the second empty
	p := vBytesEach("payload", 2)
	t1 := append(vBytesN("hdr1", 12), refU32(len(p))...)
	t1 = append(t1, vBytesN("mid1", 4)...)
	t1 = append(t1, p...)
	t2 := append(vBytesN("hdr2", 12), 0, 0, 0, 0)
	t2 = append(t2, vBytesN("mid2", 4)...)
	stream := append(append([]byte(nil), t1...), t2...)
	ta, errA := c02Tokens(&vChunkReader{data: stream, cuts: 3}, 3)
	tb, errB := c02Tokens(&vChunkReader{data: stream, whole: true}, 3)
	vAssert("scan_same_error", (errA == nil) == (errB == nil))
	vAssert("scan_same_count", len(ta) == len(tb))
	vAssert("scan_two_tokens", len(tb) == 2)
	for i := 0; i < len(ta) && i < len(tb); i++ {
		vAssertEqBytes("scan_same_token", ta[i], tb[i])
	}
}

// ---- ReadFull sites: upload stream header + data through receiveFile ---------------------------------------------

func VH_C02_UploadStreamChunks() {
	name := vBytesN("name", 2)
	data := vBytesN("data", 3)
	stream := c02UploadStream(name, data)
	var fa, fb, ia, ib, ra, rb, ca, cb vBufW
	errA := receiveFile(&vChunkReader{data: stream, cuts: 3}, &fa, &ra, &ia, &ca)
	errB := receiveFile(&vChunkReader{data: stream, whole: true}, &fb, &rb, &ib, &cb)
	vAssert("upload_same_outcome", (errA == nil) == (errB == nil))
	vAssert("upload_whole_ok", errB == nil)
	vAssertEqBytes("upload_same_data", fa.b, fb.b)
	vAssertEqBytes("upload_data_exact", fb.b, data)
	vAssertEqBytes("upload_same_info", ia.b, ib.b)
}

func VH_C02_UploadStreamWithResourceFork() {
	name := vBytesN("name", 2)
	data := vBytesN("data", 3)
	rsrc := vBytesN("rsrc", 2)
	stream := c02UploadStream3(name, data, rsrc)
	var fa, fb, ia, ib, ra, rb, ca, cb vBufW
	errA := receiveFile(&vChunkReader{data: stream, cuts: 2}, &fa, &ra, &ia, &ca)
	errB := receiveFile(&vChunkReader{data: stream, whole: true}, &fb, &rb, &ib, &cb)
	vAssert("upload3_chunked_ok", errA == nil)
	vAssert("upload3_whole_ok", errB == nil)
	vAssertEqBytes("upload3_data_exact_chunked", fa.b, data)
	vAssertEqBytes("upload3_data_exact_whole", fb.b, data)
	vAssertEqBytes("upload3_rsrc_exact_chunked", ra.b, rsrc)
	vAssertEqBytes("upload3_rsrc_exact_whole", rb.b, rsrc)
}

func c02ItemHeader(isDir bool, segs ...string) []byte {
	var p []byte
	for _, s := range segs {
		p = append(p, 0, 0, byte(len(s)))
		p = append(p, s...)
	}
	ty := byte(0)
	if isDir {
		ty = 1
	}
	h := []byte{byte((len(p) + 4) >> 8), byte(len(p) + 4), 0, ty, 0, byte(len(segs))}
	return append(h, p...)
}

func c02NSFile(p string) []byte {
	for i, n := range vNSNames {
		if filepath.Clean(n) == p {
			return vNSData[i]
		}
	}
	return nil
}

// A folder upload of two files on one transfer connection gives the same two files whether the client's bytes
// arrive all at once (each read returns everything available, so reads run past item boundaries), in 7- or 50-byte
// segments, or with segment boundaries placed inside the first header, inside the second header and around the end of
// the first file.
func VH_C02_FolderUploadSegmentation_sym() {
	vUnroll(200)
	d1 := vBytesN("data_first", 2)
	d2 := vBytesN("data_second", 2)
	in := c02ItemHeader(false, "f.bin")
	s1 := c02UploadStream([]byte("f.bin"), d1)
	in = append(in, refU32(len(s1))...)
	in = append(in, s1...)
	in = append(in, c02ItemHeader(false, "g.bin")...)
	s2 := c02UploadStream([]byte("g.bin"), d2)
	in = append(in, refU32(len(s2))...)
	in = append(in, s2...)
	hdr2 := len(c02ItemHeader(false, "f.bin")) + 4 + len(s1) // where the second item's header starts
	rd := &vChunkReader{data: in, whole: true}
	switch vChoice("delivery", 7) {
	case 1:
		rd.each = 7
	case 2:
		rd.each = 50
	case 3:
		rd.bounds = []int{3} // a segment ends inside the first item header
	case 4:
		rd.bounds = []int{hdr2 + 1} // ... inside the second item header
	case 5:
		rd.bounds = []int{hdr2 + 5, hdr2 + 8}
	case 6:
		rd.bounds = []int{hdr2 - 1, hdr2 + 2} // the last byte of the first file travels with the start of the next header
	}
	vNSNames, vNSData, vNSWrites, vNSDirs = []string{"/r/up"}, [][]byte{nil}, 0, nil
	c := &vRW{r: rd}
	ft := &FileTransfer{bytesSentCounter: &WriteCounter{}, FolderItemCount: []byte{0, 2}}
	err := UploadFolderHandler(c, "/r/up", ft, &vNSStore{}, vLogger(), false)
	vAssert("folder_upload_ok_for_every_segmentation", err == nil)
	vAssertEqBytes("first_file_same_for_every_segmentation", c02NSFile("/r/up/f.bin"), d1)
	vAssertEqBytes("second_file_same_for_every_segmentation", c02NSFile("/r/up/g.bin"), d2)
}

// A whole control session - handshake, login, then two requests - is served the same whether the client's bytes
// arrive all at once (reads run past the handshake and past each transaction), one byte per read, in 5- or 23-byte
// pieces, or one message per read: both requests are executed once, in order.
func VH_C02_ControlSessionSegmentation_sym() {
	srv, _ := NewServer()
	srv.Logger = vLogger()
	vStartOutbox(srv)
	srv.AccountManager = &vAcctStub{exists: true, account: Account{Login: "bob", Name: "b", Password: HashAndSalt([]byte("pw"))}}
	srv.BanList = &vBanStub{}
	srv.Agreement = &vSeeker{text: []byte("agreement")}
	var order []byte
	srv.HandleFunc(TranGetUserNameList, func(cc *ClientConn, t *Transaction) []Transaction {
		order = append(order, 'L')
		return []Transaction{cc.NewReply(t)}
	})
	srv.HandleFunc(TranKeepAlive, func(cc *ClientConn, t *Transaction) []Transaction {
		order = append(order, 'K')
		return []Transaction{cc.NewReply(t)}
	})
	login := Transaction{Type: TranLogin, ID: [4]byte{0, 0, 0, 1}}
	r1 := Transaction{Type: TranGetUserNameList, ID: [4]byte{0, 0, 0, 7}}
	r2 := Transaction{Type: TranKeepAlive, ID: [4]byte{0, 0, 0, 8}}
	hs := []byte{'T', 'R', 'T', 'P', 'H', 'O', 'T', 'L', 0, 1, 0, 2}
	m1 := refTransaction(&login, [][]byte{refField(FieldUserLogin[0], FieldUserLogin[1], []byte{0x9d, 0x90, 0x9d}), refField(FieldUserPassword[0], FieldUserPassword[1], []byte("pw"))})
	m2 := refTransaction(&r1, nil)
	m3 := refTransaction(&r2, nil)
	stream := append(append(append(append([]byte(nil), hs...), m1...), m2...), m3...)
	var rd *vChunkReader
	switch vChoice("delivery", 5) {
	case 0:
		rd = &vChunkReader{data: stream, whole: true}
	case 1:
		rd = &vChunkReader{data: stream, whole: true, each: 1}
	case 2:
		rd = &vChunkReader{data: stream, whole: true, each: 5}
	case 3:
		rd = &vChunkReader{data: stream, whole: true, each: 23}
	default:
		rd = &vChunkReader{data: stream, whole: true, sizes: []int{len(hs), len(m1), len(m2), len(m3)}}
	}
	srv.handleNewConnection(nil, &vRW{r: rd}, "10.1.2.3:4000")
	vDrainOutbox(srv)
	vAssert("both_requests_served_once_in_order_for_every_segmentation", string(order) == "LK")
}
