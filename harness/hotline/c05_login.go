package hotline

// The 1.2.3 login flow: the login transaction itself may carry a user name and an icon. This is a second place
// (besides Agreed and SetClientUserInfo) where a client-supplied name is adopted, so it is governed by privilege 26
// (any name); the admin flag shown to everybody is governed by privilege 22; the agreement is withheld exactly for
// privilege 27. Bit i of the bitmap = byte i/8, mask 0x80>>(i%8).
func c05Bit(access []byte, i int) bool { return access[i/8]&(0x80>>(uint(i)%8)) != 0 }

func VH_C05_LoginTimeNameNeedsAnyName() {
	srv, _ := NewServer()
	srv.Logger = vLogger()
	vStartOutbox(srv)
	acct := &vAcctStub{exists: true, account: Account{Login: "bob", Name: "acctname", Password: HashAndSalt([]byte("pw"))}}
	access := vBytesN("acct.access", 8)
	copy(acct.account.Access[:], access)
	srv.AccountManager = acct
	srv.BanList = &vBanStub{}
	srv.Agreement = &vSeeker{text: []byte("agreement")}
	otherConn := &vRecConn{}
	other := &ClientConn{Connection: otherConn, Server: srv, Account: &Account{Login: "o"}, UserName: []byte("o")}
	srv.ClientMgr.Add(other)

	withName := vBool("login_carries_a_name")
	name := vBytesEach("login.name", 2)
	vAssume(len(name) >= 1)
	withVersion := vBool("login_carries_a_version")
	loginID := [4]byte{0, 0, 0, 1}
	login := Transaction{Type: TranLogin, ID: loginID}
	lf := [][]byte{
		refField(FieldUserLogin[0], FieldUserLogin[1], []byte{0x9d, 0x90, 0x9d}), // "bob" obfuscated
		refField(FieldUserPassword[0], FieldUserPassword[1], []byte("pw")),
	}
	if withName {
		lf = append(lf, refField(FieldUserName[0], FieldUserName[1], name))
	}
	if withVersion {
		lf = append(lf, refField(FieldVersion[0], FieldVersion[1], []byte{0, 190}))
	}
	stream := []byte{'T', 'R', 'T', 'P', 'H', 'O', 'T', 'L', 0, 1, 0, 2}
	stream = append(stream, refTransaction(&login, lf)...)
	srv.handleNewConnection(nil, &vRW{r: &vChunkReader{data: stream, whole: true}}, "10.1.2.3:4000")
	outbox := vDrainOutbox(srv)

	announced, agreements, accessNotes := 0, 0, 0
	for _, t := range outbox {
		if t.Type == TranNotifyChangeUser && t.ClientID == other.ID {
			announced++
			vAssert("login_notice_has_four_fields", len(t.Fields) == 4)
			got := t.GetField(FieldUserName).Data
			if c05Bit(access, AccessAnyName) {
				vAssertEqBytes("any_name_holder_is_announced_under_the_supplied_name", got, name)
			} else {
				vAssertEqBytes("without_any_name_the_account_name_is_announced", got, []byte("acctname"))
			}
			flags := t.GetField(FieldUserFlags).Data
			vAssert("login_notice_flags_two_bytes", len(flags) == 2)
			// flag bit 1 (admin) is shown exactly for holders of the disconnect privilege; nothing else is set at login
			if c05Bit(access, AccessDisconUser) {
				vAssert("disconnect_privilege_shows_admin_flag", flags[0] == 0 && flags[1] == 2)
			} else {
				vAssert("no_admin_flag_without_disconnect_privilege", flags[0] == 0 && flags[1] == 0)
			}
			id := t.GetField(FieldUserID).Data
			vAssert("login_notice_names_the_new_client_not_the_recipient", len(id) == 2 && !(id[0] == other.ID[0] && id[1] == other.ID[1]))
		}
		if t.Type == TranShowAgreement {
			agreements++
			vAssert("agreement_goes_to_the_new_client", t.ClientID != other.ID)
			if c05Bit(access, AccessNoAgreement) {
				vAssert("no_agreement_holder_gets_no_text", len(t.GetField(FieldData).Data) == 0)
			} else {
				vAssertEqBytes("agreement_text_whole", t.GetField(FieldData).Data, []byte("agreement"))
			}
		}
		if t.Type == TranUserAccess {
			accessNotes++
			vAssertEqBytes("announced_access_is_the_account_bitmap", t.Fields[0].Data, access)
		}
	}
	if withName {
		vAssert("login_with_a_name_is_announced_once", announced == 1)
	} else {
		vAssert("login_without_a_name_is_not_announced_yet", announced == 0)
	}
	if c05Bit(access, AccessNoAgreement) && !withVersion {
		vAssert("old_client_with_no_agreement_gets_no_agreement_transaction", agreements == 0)
	} else {
		vAssert("agreement_transaction_once", agreements == 1)
	}
	vAssert("access_announced_once", accessNotes == 1)
}
