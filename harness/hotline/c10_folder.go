package hotline

import (
	"io/fs"
	"path/filepath"
)

// filepath.Walk replaced (engine-only) by a lexical pre-order walk over a harness-defined tree.
type vWalkEntry struct {
	path string
	info fs.FileInfo
}

var vWalkTree []vWalkEntry

func vStub_filepath_Walk(root string, fn filepath.WalkFunc) error {
	skip := "" // subtree being skipped (SkipDir returned for that directory)
	for _, e := range vWalkTree {
		if skip != "" && len(e.path) > len(skip) && e.path[:len(skip)] == skip && e.path[len(skip)] == '/' {
			continue
		}
		skip = ""
		if err := fn(e.path, e.info, nil); err != nil {
			if err == filepath.SkipDir {
				if e.info.IsDir() {
					skip = e.path
					continue
				}
				return nil // SkipDir on a file: rest of its directory (the harness trees put files last)
			}
			if err == filepath.SkipAll {
				return nil
			}
			return err
		}
	}
	return nil
}

type vScriptRW struct {
	in  []byte
	pos int
	out []byte
}

func (c *vScriptRW) Read(p []byte) (int, error) {
	if c.pos >= len(c.in) {
		return 0, vErr{}
	}
	n := copy(p, c.in[c.pos:])
	c.pos += n
	return n, nil
}
func (c *vScriptRW) Write(p []byte) (int, error) { c.out = append(c.out, p...); return len(p), nil }

// Folder download of a folder holding one visible file, one dot-file and one sub-folder: the announced item
// count equals the item headers sent; the dot-file is never sent; the file honours the client's choice
// (send / resume from an offset / skip) with the right size prefix and bytes.
func VH_C10_FolderDownload_sym() {
	vUnroll(200)
	data := vBytesN("data", 4)
	const root = "/r/folder"
	vWalkTree = []vWalkEntry{
		{root + "/", &vInfo{name: "folder", dir: true}},
		{root + "/.hidden", &vInfo{name: ".hidden", size: 1}},
		{root + "/a.txt", &vInfo{name: "a.txt", size: 4}},
		{root + "/sub", &vInfo{name: "sub", dir: true}},
	}
	st := &vStore{names: []string{root + "/a.txt", root + "/sub", root, root + "/.hidden"}, data: [][]byte{data, nil, nil, []byte{9}}}
	count, err := CalcItemCount(root)
	vAssert("count_ok", err == nil && len(count) == 2)
	announced := int(count[0])<<8 | int(count[1])

	action := byte(1 + vChoice("file_action", 3)) // 1 send, 2 resume, 3 skip
	k := 0
	in := []byte{0, 3} // the client's opening "next item"
	in = append(in, 0, action)
	if action == 2 {
		k = vInt("resume_offset")
		vAssume(0 <= k && k <= 4)
		rd, _ := NewFileResumeData([]ForkInfoList{*NewForkInfoList([]byte{0, 0, 0, byte(k)})}).BinaryMarshal()
		in = append(in, byte(len(rd)>>8), byte(len(rd)))
		in = append(in, rd...)
	}
	if action != 3 {
		in = append(in, 0, 3) // after the file: next
	}
	in = append(in, 0, 1) // reply to the sub-folder's header
	c := &vScriptRW{in: in}
	ft := &FileTransfer{bytesSentCounter: &WriteCounter{}}
	err = DownloadFolderHandler(c, root, ft, st, vLogger(), true)
	vAssert("folder_download_ok", err == nil)

	// reference item headers: size(2) type(2) count(2) {00 00 len name}
	hdrFile := []byte{0, 12, 0, 0, 0, 1, 0, 0, 5, 'a', '.', 't', 'x', 't'}
	hdrDir := []byte{0, 10, 0, 1, 0, 1, 0, 0, 3, 's', 'u', 'b'}
	out := c.out
	vAssert("first_header_is_the_visible_file", len(out) >= len(hdrFile))
	vAssertEqBytes("file_item_header", out[:len(hdrFile)], hdrFile)
	rest := out[len(hdrFile):]
	const ffoLen = 24 + 16 + 72 + 5 + 2 + 16
	if action != 3 {
		want := ffoLen + 4 - k
		vAssert("size_prefix_present", len(rest) >= 4)
		prefix := int(rest[0])<<24 | int(rest[1])<<16 | int(rest[2])<<8 | int(rest[3])
		vAssert("size_prefix_is_header_plus_remaining_data", prefix == want)
		vAssert("announced_bytes_follow", len(rest) >= 4+want)
		body := rest[4 : 4+want]
		vAssert("file_header_magic", body[0] == 'F' && body[1] == 'I' && body[2] == 'L' && body[3] == 'P')
		vAssertEqBytes("file_data_from_offset", body[ffoLen:], data[k:])
		rest = rest[4+want:]
	}
	vAssertEqBytes("then_the_subfolder_header_and_nothing_else", rest, hdrDir)
	vAssert("announced_count_equals_headers_sent", announced == 2)
}

func c10ItemHeader(isDir bool, segs ...string) []byte {
	var p []byte
	for _, s := range segs {
		p = append(p, 0, 0, byte(len(s)))
		p = append(p, s...)
	}
	ty := byte(0)
	if isDir {
		ty = 1
	}
	h := []byte{byte((len(p) + 4) >> 8), byte(len(p) + 4), 0, ty, 0, byte(len(segs))}
	return append(h, p...)
}

// clean the double slash the resume branch builds by string concatenation
func c10Clean(p string) string { return filepath.Clean(p) }

func c10Find(p string) int {
	for i, n := range vNSNames {
		if c10Clean(n) == p {
			return i
		}
	}
	return -1
}

// Folder upload of [folder d, file d/f.bin]: recreates exactly what was streamed; a file already complete is
// skipped, a partial one is resumed from its length, a new one is received and then published under its name.
func VH_C10_FolderUpload_sym() {
	vUnroll(200)
	vNSNames, vNSData, vNSWrites, vNSDirs = []string{"/r/up"}, [][]byte{nil}, 0, nil
	const dir, final, partial = "/r/up/d", "/r/up/d/f.bin", "/r/up/d/f.bin.incomplete"
	state := vChoice("file_state", 3) // 0 absent, 1 partial, 2 complete
	prev := vBytesN("partial_old", 2)
	old := vBytesN("complete_old", 2)
	dirExists := vBool("folder_exists") || state != 0
	if dirExists {
		vNSNames = append(vNSNames, dir)
		vNSData = append(vNSData, nil)
	}
	switch state {
	case 1:
		vNSNames = append(vNSNames, partial)
		vNSData = append(vNSData, prev)
	case 2:
		vNSNames = append(vNSNames, final)
		vNSData = append(vNSData, old)
	}
	data := vBytesN("data", 3)
	in := c10ItemHeader(true, "d")
	in = append(in, c10ItemHeader(false, "d", "f.bin")...)
	if state != 2 {
		stream := c02UploadStream([]byte("f.bin"), data)
		in = append(in, refU32(len(stream))...)
		in = append(in, stream...)
	}
	c := &vScriptRW{in: in}
	ft := &FileTransfer{bytesSentCounter: &WriteCounter{}, FolderItemCount: []byte{0, 2}}
	err := UploadFolderHandler(c, "/r/up", ft, &vNSStore{}, vLogger(), false)
	vAssert("folder_upload_ok", err == nil)
	vAssert("folder_exists_afterwards", c10Find(dir) >= 0)
	if dirExists {
		vAssert("existing_folder_not_recreated", len(vNSDirs) == 0)
	} else {
		vAssert("missing_folder_created_once", len(vNSDirs) == 1 && vNSDirs[0] == dir)
	}
	fi := c10Find(final)
	vAssert("file_published", fi >= 0)
	vAssert("no_partial_left", c10Find(partial) < 0)
	if fi >= 0 {
		switch state {
		case 0:
			vAssertEqBytes("new_file_is_what_was_sent", vNSData[fi], data)
		case 1:
			vAssertEqBytes("resumed_file_is_old_prefix_plus_sent", vNSData[fi], append(append([]byte(nil), prev...), data...))
		default:
			vAssertEqBytes("complete_file_skipped_untouched", vNSData[fi], old)
			vAssert("complete_file_nothing_written", vNSWrites == 0)
		}
	}
	// the server's side of the dialogue: next(3) ; after folder: next(3) ; file: action ; [resume data] ; next(3)
	out := c.out
	vAssert("dialogue_starts_with_next", len(out) >= 6 && out[0] == 0 && out[1] == 3 && out[2] == 0 && out[3] == 3 && out[4] == 0)
	switch state {
	case 0:
		vAssert("absent_file_is_requested", out[5] == 1)
	case 1:
		vAssert("partial_file_is_resumed", out[5] == 2)
		vAssert("resume_offset_is_partial_length", len(out) >= 8+58 && out[8+46] == 0 && out[8+47] == 0 && out[8+48] == 0 && out[8+49] == 2)
	default:
		vAssert("complete_file_is_skipped", out[5] == 3)
	}
}

// The connection dies in the middle of a file of a folder upload (new file or resumed file): the final name must
// not appear; the partial file keeps exactly what arrived.
func VH_C10_FolderUploadCut_sym() {
	vUnroll(200)
	vNSNames, vNSData, vNSWrites, vNSDirs = []string{"/r/up", "/r/up/d"}, [][]byte{nil, nil}, 0, nil
	const final, partial = "/r/up/d/f.bin", "/r/up/d/f.bin.incomplete"
	resumed := vBool("resumed")
	prev := vBytesN("partial_old", 2)
	if resumed {
		vNSNames = append(vNSNames, partial)
		vNSData = append(vNSData, prev)
	} else {
		prev = nil
	}
	data := vBytesN("data", 3)
	got := vChoice("data_bytes_received", 3) // 0, 1 or 2 of the 3 data bytes arrive
	in := c10ItemHeader(false, "d", "f.bin")
	stream := c02UploadStream([]byte("f.bin"), data)
	in = append(in, refU32(len(stream))...)
	in = append(in, stream[:len(stream)-3+got]...)
	c := &vScriptRW{in: in}
	ft := &FileTransfer{bytesSentCounter: &WriteCounter{}, FolderItemCount: []byte{0, 1}}
	UploadFolderHandler(c, "/r/up", ft, &vNSStore{}, vLogger(), false)
	vAssert("cut_file_not_published", c10Find(final) < 0)
	pi := c10Find(partial)
	vAssert("cut_file_partial_kept", pi >= 0)
	if pi >= 0 {
		vAssertEqBytes("cut_file_partial_is_prefix_received", vNSData[pi], append(append([]byte(nil), prev...), data[:got]...))
	}
}

// A folder with two visible files and a hidden folder that itself holds a visible file. The client resumes the first
// file and resumes or plainly requests the second (a plain request after a resume starts at byte 0 again). The count announced for the folder equals the item headers sent, and each resumed
// file is framed with its own offset.
func VH_C10_FolderDownloadTwoResumes_sym() {
	vUnroll(300)
	a := vBytesN("data_a", 4)
	b := vBytesN("data_b", 4)
	const root = "/r/folder"
	vWalkTree = []vWalkEntry{
		{root + "/", &vInfo{name: "folder", dir: true}},
		{root + "/.cache", &vInfo{name: ".cache", dir: true}},
		{root + "/.cache/v.txt", &vInfo{name: "v.txt", size: 1}},
		{root + "/a.txt", &vInfo{name: "a.txt", size: 4}},
		{root + "/b.txt", &vInfo{name: "b.txt", size: 4}},
	}
	st := &vStore{names: []string{root + "/a.txt", root + "/b.txt", root, root + "/.cache", root + "/.cache/v.txt"}, data: [][]byte{a, b, nil, nil, []byte{7}}}
	count, err := CalcItemCount(root)
	vAssert("count_ok", err == nil && len(count) == 2)
	announced := int(count[0])<<8 | int(count[1])

	ka := vChoice("offset_a", 3)
	kb := vChoice("offset_b", 4) // 0: the second file is plainly sent after the first one was resumed
	resume := func(k int) []byte {
		rd, _ := NewFileResumeData([]ForkInfoList{*NewForkInfoList([]byte{0, 0, 0, byte(k)})}).BinaryMarshal()
		x := []byte{0, 2, byte(len(rd) >> 8), byte(len(rd))}
		return append(x, rd...)
	}
	in := []byte{0, 3}
	// the hidden folder's visible child is announced too (the walk descends into it): answer "skip"
	in = append(in, 0, 3)
	in = append(in, resume(ka)...)
	in = append(in, 0, 3)
	if kb == 0 {
		in = append(in, 0, 1)
	} else {
		in = append(in, resume(kb)...)
	}
	in = append(in, 0, 3)
	c := &vScriptRW{in: in}
	ft := &FileTransfer{bytesSentCounter: &WriteCounter{}}
	err = DownloadFolderHandler(c, root, ft, st, vLogger(), true)
	vAssert("folder_download_ok", err == nil)
	out := c.out
	// item headers sent = occurrences of a header for v.txt (inside .cache), a.txt, b.txt
	hdrV := []byte{0, 21, 0, 0, 0, 2, 0, 0, 6, '.', 'c', 'a', 'c', 'h', 'e', 0, 0, 5, 'v', '.', 't', 'x', 't'}
	hdrA := []byte{0, 12, 0, 0, 0, 1, 0, 0, 5, 'a', '.', 't', 'x', 't'}
	hdrB := []byte{0, 12, 0, 0, 0, 1, 0, 0, 5, 'b', '.', 't', 'x', 't'}
	const ffoLen = 24 + 16 + 72 + 5 + 2 + 16
	pos := 0
	sent := 0
	if len(out) >= len(hdrV) && string(out[:len(hdrV)]) == string(hdrV) {
		pos = len(hdrV)
		sent++
	}
	vAssert("file_a_header", len(out) >= pos+len(hdrA))
	vAssertEqBytes("file_a_header_bytes", out[pos:pos+len(hdrA)], hdrA)
	pos += len(hdrA)
	sent++
	wantA := ffoLen + 4 - ka
	vAssert("file_a_prefix", len(out) >= pos+4+wantA && int(out[pos+3]) == wantA&0xff && int(out[pos+2]) == wantA>>8)
	vAssertEqBytes("file_a_data_from_its_offset", out[pos+4+ffoLen:pos+4+wantA], a[ka:])
	pos += 4 + wantA
	vAssert("file_b_header", len(out) >= pos+len(hdrB))
	vAssertEqBytes("file_b_header_bytes", out[pos:pos+len(hdrB)], hdrB)
	pos += len(hdrB)
	sent++
	wantB := ffoLen + 4 - kb
	vAssert("file_b_prefix_uses_its_own_offset", len(out) >= pos+4+wantB && int(out[pos+3]) == wantB&0xff && int(out[pos+2]) == wantB>>8)
	vAssertEqBytes("file_b_data_from_its_own_offset", out[pos+4+ffoLen:pos+4+wantB], b[kb:])
	pos += 4 + wantB
	vAssert("nothing_after_last_item", pos == len(out))
	vAssert("announced_count_equals_headers_sent", announced == sent)
}

// The announced item count is the number of visible entries for folders larger than one byte can count.
func VH_C10_ItemCountLargeFolder_sym() {
	vUnroll(400)
	const root = "/r/big"
	vWalkTree = []vWalkEntry{{root, &vInfo{name: "big", dir: true}}}
	n := 255 + vChoice("extra_items", 3)*45 // 255, 300 or 345 visible files
	for i := 0; i < n; i++ {
		vWalkTree = append(vWalkTree, vWalkEntry{root + "/f", &vInfo{name: "f", size: 1}})
	}
	vWalkTree = append(vWalkTree, vWalkEntry{root + "/.hidden", &vInfo{name: ".hidden", size: 1}})
	count, err := CalcItemCount(root)
	vAssert("count_ok", err == nil && len(count) == 2)
	vAssert("announced_count_is_number_of_visible_items", int(count[0])<<8|int(count[1]) == n)
}

// Folder upload of [file f.bin, folder sub, file sub/g.bin] delivered as fast as the server reads: two files in one
// transfer (whatever is read past the end of the first file belongs to the next item) and a file one level down
// whose partial upload, if there is one, is found where it lies (under sub/) and resumed from its length.
func VH_C10_FolderUploadTwoFilesOneNested_sym() {
	vUnroll(200)
	vNSNames, vNSData, vNSWrites, vNSDirs = []string{"/r/up", "/r/up/sub"}, [][]byte{nil, nil}, 0, nil
	const f1, g, gPartial = "/r/up/f.bin", "/r/up/sub/g.bin", "/r/up/sub/g.bin.incomplete"
	nestedPartial := vBool("nested_file_has_partial")
	prev := vBytesN("partial_old", 2)
	if nestedPartial {
		vNSNames = append(vNSNames, gPartial)
		vNSData = append(vNSData, prev)
	} else {
		prev = nil
	}
	d1 := vBytesN("data_first", 3)
	d2 := vBytesN("data_nested", 2)
	in := c10ItemHeader(false, "f.bin")
	s1 := c02UploadStream([]byte("f.bin"), d1)
	if vBool("first_file_carries_a_resource_fork") { // not kept by this server (forks are not preserved), but it must be consumed
		s1 = c02UploadStream3([]byte("f.bin"), d1, vBytesN("resource_fork", 2))
	}
	in = append(in, refU32(len(s1))...)
	in = append(in, s1...)
	in = append(in, c10ItemHeader(true, "sub")...)
	in = append(in, c10ItemHeader(false, "sub", "g.bin")...)
	s2 := c02UploadStream([]byte("g.bin"), d2)
	in = append(in, refU32(len(s2))...)
	in = append(in, s2...)
	c := &vScriptRW{in: in}
	ft := &FileTransfer{bytesSentCounter: &WriteCounter{}, FolderItemCount: []byte{0, 3}}
	err := UploadFolderHandler(c, "/r/up", ft, &vNSStore{}, vLogger(), false)
	vAssert("two_file_upload_ok", err == nil)
	i1, i2 := c10Find(f1), c10Find(g)
	vAssert("first_file_published", i1 >= 0)
	vAssert("nested_file_published", i2 >= 0)
	vAssert("no_partials_left", c10Find(gPartial) < 0 && c10Find(f1+".incomplete") < 0)
	if i1 >= 0 {
		vAssertEqBytes("first_file_is_what_was_sent", vNSData[i1], d1)
	}
	if i2 >= 0 {
		vAssertEqBytes("nested_file_is_old_prefix_plus_sent", vNSData[i2], append(append([]byte(nil), prev...), d2...))
	}
	// dialogue: next, [first file] send, next, [sub] next, [nested file] send or resume(+58 bytes of resume data), next
	out := c.out
	vAssert("first_file_requested", len(out) >= 4 && out[1] == 3 && out[3] == 1)
	if nestedPartial {
		vAssert("nested_partial_is_resumed_from_its_length", len(out) == 2+2+2+2+2+2+58+2 && out[9] == 2 && out[12+46] == 0 && out[12+47] == 0 && out[12+48] == 0 && out[12+49] == 2)
	} else {
		vAssert("nested_new_file_requested", len(out) == 2+2+2+2+2+2 && out[9] == 1)
	}
}

// A folder that contains an entry with the folder's own name (Music/Music, and a file named like the folder one level
// down): every entry below the requested folder gets its header, only the requested folder itself does not, and the
// announced count says the same.
func VH_C10_FolderDownloadEntryNamedLikeTheFolder_sym() {
	vUnroll(200)
	const root = "/r/folder"
	inner := vBool("inner_entry_is_a_file")
	vWalkTree = []vWalkEntry{
		{root + "/", &vInfo{name: "folder", dir: true}},
		{root + "/folder", &vInfo{name: "folder", dir: !inner, size: 1}},
		{root + "/zed", &vInfo{name: "zed", dir: true}},
		{root + "/zed/folder", &vInfo{name: "folder", dir: true}},
	}
	st := &vStore{names: []string{root, root + "/folder", root + "/zed", root + "/zed/folder"}, data: [][]byte{nil, {9}, nil, nil}}
	count, err := CalcItemCount(root)
	vAssert("count_ok", err == nil && len(count) == 2)
	announced := int(count[0])<<8 | int(count[1])
	vAssert("three_entries_announced", announced == 3)
	var in []byte
	for i := 0; i < 8; i++ {
		in = append(in, 0, 3) // "next" for the start, "next"/"skip" for every item offered
	}
	c := &vScriptRW{in: in}
	ft := &FileTransfer{bytesSentCounter: &WriteCounter{}}
	err = DownloadFolderHandler(c, root, ft, st, vLogger(), true)
	vAssert("folder_download_ok", err == nil)
	offered := c.pos/2 - 1
	vAssert("announced_count_equals_items_offered", offered == announced)
}
