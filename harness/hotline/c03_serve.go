package hotline

import (
	"context"
	"net"
	"time"

	"golang.org/x/time/rate"
)

// ---- the accept loop's environment (engine-only) -----------------------------------------------------------------

// vListener hands out the prepared connections and then blocks for good (the accept loop parks there).
type vListener struct {
	conns []net.Conn
	next  int
	block chan struct{}
}

func (l *vListener) Accept() (net.Conn, error) {
	if l.next < len(l.conns) {
		c := l.conns[l.next]
		l.next++
		return c, nil
	}
	<-l.block
	return nil, vErr{}
}
func (l *vListener) Close() error   { return nil }
func (l *vListener) Addr() net.Addr { return &net.TCPAddr{Port: 5500} }

// vTCPConn: a peer that connects and says nothing (its first Read fails).
type vTCPConn struct {
	addr   *net.TCPAddr
	closed int
	in     *vChunkReader // what the peer sends, if anything
}

func (c *vTCPConn) Read(p []byte) (int, error) {
	if c.in == nil {
		return 0, vErr{}
	}
	return c.in.Read(p)
}
func (c *vTCPConn) Write(p []byte) (int, error)        { return len(p), nil }
func (c *vTCPConn) Close() error                       { c.closed++; return nil }
func (c *vTCPConn) LocalAddr() net.Addr                { return &net.TCPAddr{Port: 5500} }
func (c *vTCPConn) RemoteAddr() net.Addr               { return c.addr }
func (c *vTCPConn) SetDeadline(t time.Time) error      { return nil }
func (c *vTCPConn) SetReadDeadline(t time.Time) error  { return nil }
func (c *vTCPConn) SetWriteDeadline(t time.Time) error { return nil }

// the peer's address text: two peers, two addresses (the port field of the prepared address picks one)
func vStub_net_TCPAddr_String(a *net.TCPAddr) string {
	if a.Port == 1 {
		return "10.0.0.1:40001"
	}
	return "10.0.0.2:40002"
}

func vStub_context_WithValue(parent context.Context, key, val any) context.Context { return parent }

// the per-address limiter: whether it lets a connection through is arbitrary
func vStub_rate_NewLimiter(r rate.Limit, b int) *rate.Limiter { return new(rate.Limiter) }
func vStub_rate_Limiter_Allow(l *rate.Limiter) bool           { return vBool("rate_limiter_allows") }

// Two peers connect at the same moment. Each connection is served by its own goroutine; whatever those goroutines
// share must be touched under a lock - two goroutines in a map at once, one of them writing, make the Go runtime
// abort the whole process, so any pair of strangers could take the server down by connecting together.
func VH_C03_SimultaneousConnectionsShareNothingUnlocked_sym() {
	srv, _ := NewServer()
	srv.Logger = vLogger()
	srv.BanList = &vBanStub{}
	ln := &vListener{conns: []net.Conn{&vTCPConn{addr: &net.TCPAddr{Port: 1}}, &vTCPConn{addr: &net.TCPAddr{Port: 2}}}, block: make(chan struct{})}
	go srv.Serve(context.Background(), ln)
	vRunSpawned()
	vAssert("both_connections_were_accepted", ln.next == 2)
	vAssert("connection_goroutines_share_no_map_without_a_lock", vSharedMapRaces() == 0)
}

// The same with two peers that complete handshake and login (as guest) and send one request each before they go
// away: logging in, being announced, being served and leaving all happen in the two connection goroutines.
func VH_C03_SimultaneousSessionsShareNothingUnlocked_sym() {
	srv, _, _ := c03Server()
	login := Transaction{Type: TranLogin, ID: [4]byte{0, 0, 0, 1}}
	next := Transaction{Type: TranGetUserNameList, ID: [4]byte{0, 0, 0, 7}}
	srv.HandleFunc(TranGetUserNameList, func(cc *ClientConn, t *Transaction) []Transaction { return []Transaction{cc.NewReply(t)} })
	stream := append([]byte(nil), c03Handshake...)
	stream = append(stream, refTransaction(&login, [][]byte{refField(FieldUserLogin[0], FieldUserLogin[1], []byte{0x98, 0x8a, 0x9a, 0x8c, 0x8b})})...)
	stream = append(stream, refTransaction(&next, nil)...)
	mk := func(port int) *vTCPConn {
		return &vTCPConn{addr: &net.TCPAddr{Port: port}, in: &vChunkReader{data: append([]byte(nil), stream...), whole: true}}
	}
	ln := &vListener{conns: []net.Conn{mk(1), mk(2)}, block: make(chan struct{})}
	go srv.Serve(context.Background(), ln)
	vRunSpawned()
	vAssert("both_sessions_were_accepted", ln.next == 2)
	vAssert("session_goroutines_share_no_map_without_a_lock", vSharedMapRaces() == 0)
}
