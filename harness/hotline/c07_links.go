package hotline

import "path/filepath"

var c07LinkTarget, c07LinkName string

func vStub_os_Symlink(oldname, newname string) error {
	c07LinkTarget, c07LinkName = oldname, newname
	return nil
}

// An alias is a link the client can afterwards move to any folder of its root (Move File renames the link itself),
// so what the link stores must name something inside the root from wherever the link ends up: resolved from every
// folder depth of the root, the stored target stays inside the root.
func VH_C07_AliasTargetStaysInsideRootWhereverMoved_sym() {
	vNoMerge() // every case keeps its concrete strings
	old := "/r/a/N"
	switch vChoice("target_depth", 3) {
	case 0:
		old = "/r/N"
	case 1:
		old = "/r/a/b/N"
	}
	link := "/r/a/b/c/alias"
	if vBool("alias_made_next_to_target") {
		link = filepath.Join(filepath.Dir(old), "alias")
	}
	err := (&OSFileStore{}).Symlink(old, link)
	vAssert("link_made", err == nil && c07LinkName == link)
	for _, dir := range []string{"/r", "/r/a", "/r/a/b", "/r/a/b/c", "/r/x/y/z/w"} {
		resolved := c07LinkTarget
		if !filepath.IsAbs(resolved) {
			resolved = filepath.Join(dir, resolved)
		}
		vAssert("alias_target_inside_root_from_any_folder", vWithin("/r", filepath.Clean(resolved)))
	}
}
