package hotline

// c01SymTran builds a transaction with nfields fields. The last field's data length is symbolic over 0..maxData;
// earlier fields have every concrete length 0..small (one path each), so all segment offsets but the last length
// are concrete. With small < 0 every field is fully symbolic (thorough tier).
func c01SymTran(nfields int, maxData int, small int) (*Transaction, [][]byte) {
	t := &Transaction{
		Flags:   vU8("flags"),
		IsReply: vU8("isreply"),
		Type:    TranType{vU8("ty0"), vU8("ty1")},
	}
	copy(t.ID[:], vBytesN("id", 4))
	copy(t.ErrorCode[:], vBytesN("err", 4))
	var ref [][]byte
	for i := 0; i < nfields; i++ {
		f0, f1 := vU8("ft0"), vU8("ft1")
		var d []byte
		if i == nfields-1 || small < 0 {
			d = vBytes("fdata", maxData)
		} else {
			d = vBytesEach("fdata_small", small)
		}
		t.Fields = append(t.Fields, NewField([2]byte{f0, f1}, d))
		ref = append(ref, refField(f0, f1, d))
	}
	return t, ref
}

// Layout and size prefixes of a transaction with 0..2 fields whose data lengths range over the full 16-bit prefix.
// The comparison with the reference layout is stated segment by segment (header bytes at fixed offsets, each
// field header and payload at its symbolic offset) so that every obligation involves one segment only.
func VH_C01_TransactionLayout() {
	n := vChoice("nfields", 3)
	t, ref := c01SymTran(n, 65535, 2)
	buf := make([]byte, 140000)
	k, err := t.Read(buf)
	vAssert("no_err", err == nil)
	total := 2
	for _, f := range ref {
		total += len(f)
	}
	vAssert("length", k == 20+total)
	vAssert("hdr_flags", buf[0] == t.Flags && buf[1] == t.IsReply && buf[2] == t.Type[0] && buf[3] == t.Type[1])
	vAssertEqBytes("hdr_id", buf[4:8], t.ID[:])
	vAssertEqBytes("hdr_err", buf[8:12], t.ErrorCode[:])
	vAssertEqBytes("hdr_total", buf[12:16], refU32(total))
	vAssertEqBytes("hdr_datasize", buf[16:20], refU32(total))
	vAssertEqBytes("hdr_count", buf[20:22], refU16(n))
	off := 22
	for _, f := range ref {
		vAssertEqBytes("field_segment", buf[off:off+len(f)], f)
		off += len(f)
	}
	vObserveBytes("out", buf[:vMin(k, 64)])
}

// Drain step from an arbitrary cursor with an arbitrary buffer size (2 fields).
func VH_C01_TransactionDrain() {
	t, ref := c01SymTran(2, 65535, 2)
	full := refTransaction(t, ref)
	c01DrainStep(vEnc{t.Read, func(o int) { t.readOffset = o }, func() int { return t.readOffset }}, full, 140000)
}

// decode(encode(t)) == t for transactions with 0..2 fields (the last one with a symbolic data length).
func c01RoundTrip(maxData int) {
	n := vChoice("nfields", 3)
	t, ref := c01SymTran(n, maxData, 2)
	enc := refTransaction(t, ref)
	var d Transaction
	k, err := d.Write(enc)
	vAssert("decode_ok", err == nil)
	vAssert("decode_consumed_all", k == len(enc))
	vAssert("hdr", d.Flags == t.Flags && d.IsReply == t.IsReply && d.Type == t.Type && d.ID == t.ID && d.ErrorCode == t.ErrorCode)
	vAssert("field_count", len(d.Fields) == n)
	for i := 0; i < n && i < len(d.Fields); i++ {
		vAssert("field_type", d.Fields[i].Type == t.Fields[i].Type)
		vAssertEqBytes("field_data", d.Fields[i].Data, t.Fields[i].Data)
		vAssert("field_size", int(d.Fields[i].FieldSize[0])<<8|int(d.Fields[i].FieldSize[1]) == len(t.Fields[i].Data))
	}
	// re-encoding the decoded object gives the same bytes
	buf := make([]byte, 140000)
	m, _ := d.Read(buf)
	vAssert("reencode_len", m == len(enc))
}

func VH_C01_TransactionRoundTrip_quick()    { c01RoundTrip(6000) }
func VH_C01_TransactionRoundTrip_thorough() { c01RoundTrip(65535) }

// Round trip at the edges of the 16-bit field length (concrete lengths, arbitrary content).
func VH_C01_TransactionRoundTripBoundary() {
	lens := []int{0, 1, 65531, 65532, 65533, 65535}
	n := lens[vChoice("boundary_len", 6)]
	f0, f1 := vU8("ft0"), vU8("ft1")
	data := vBytesN("fdata", n)
	t := &Transaction{Type: TranType{vU8("ty0"), vU8("ty1")}}
	copy(t.ID[:], vBytesN("id", 4))
	t.Fields = []Field{NewField([2]byte{f0, f1}, data)}
	enc := refTransaction(t, [][]byte{refField(f0, f1, data)})
	var d Transaction
	k, err := d.Write(enc)
	vAssert("boundary_decode_ok", err == nil && k == len(enc))
	vAssert("boundary_field_count", len(d.Fields) == 1)
	if len(d.Fields) == 1 {
		vAssert("boundary_field_type", d.Fields[0].Type == [2]byte{f0, f1})
		vAssertEqBytes("boundary_field_data", d.Fields[0].Data, data)
	}
}

// The field splitter frames exactly id(2) size(2) data(size) for every input.
func VH_C01_FieldScannerFrames() {
	data := vBytes("data", 70000)
	adv, tok, err := FieldScanner(data, false)
	vAssert("no_error", err == nil)
	if len(data) >= 4 {
		size := int(data[2])<<8 | int(data[3])
		if 4+size <= len(data) {
			vAssert("field_frame_len", adv == 4+size)
			vAssertEqBytes("field_frame_token", tok, data[:4+size])
		} else {
			vAssert("field_need_more", adv == 0 && tok == nil)
		}
	} else {
		vAssert("field_need_more_short", adv == 0 && tok == nil)
	}
}
