package hotline

import "os"

// Aliases in a listing: an alias is listed with the size and type of what it finally points to - also when it
// points to another alias - and an alias of a folder (direct or through another alias) is listed as a folder.
func VH_C11_AliasesListLikeWhatTheyPointTo_sym() {
	size := vInt("file_size")
	vAssume(0 <= size && size < 1<<32)
	vNSNames = []string{"/r/t/report.txt"}
	vNSData = [][]byte{nil}
	vNSSizes = []int{size}
	vNSFolders = []string{"/r/t/music", "/r/d"}
	vLinkNames = []string{"/r/d/direct", "/r/d/twice", "/r/e/first", "/r/d/folder-twice", "/r/e/folder-first"}
	vLinkTargets = []string{"/r/t/report.txt", "/r/e/first", "/r/t/report.txt", "/r/e/folder-first", "/r/t/music"}
	link := func(n string) os.DirEntry { return vDirEntry{&vInfo{name: n, link: true}} }
	vDirNames = []string{"/r/d", "/r/d/folder-twice", "/r/t/music"}
	inside := []os.DirEntry{vDirEntry{&vInfo{name: "song.mp3", size: 5}}, vDirEntry{&vInfo{name: ".hidden", size: 1}}}
	vDirLists = [][]os.DirEntry{{link("direct"), link("folder-twice"), link("twice")}, inside, inside}
	fields, err := GetFileNameList("/r/d", []string{"^\\."})
	vAssert("listing_ok", err == nil)
	vAssert("three_entries", len(fields) == 3)
	if len(fields) != 3 {
		return
	}
	for k, want := range []string{"direct", "folder-twice", "twice"} {
		d := fields[k].Data
		vAssert("entry_long_enough", len(d) >= 20)
		name := string(d[20:])
		vAssert("entries_in_directory_order", name == want)
		sz := int(d[8])<<24 | int(d[9])<<16 | int(d[10])<<8 | int(d[11])
		if want == "folder-twice" {
			vAssert("alias_of_a_folder_alias_is_listed_as_a_folder", string(d[0:4]) == "fldr" && sz == 1)
		} else {
			vAssert("alias_lists_the_size_of_what_it_points_to", sz == size)
			vAssert("alias_lists_the_type_of_what_it_points_to", string(d[0:4]) == "TEXT")
		}
	}
}

// The kind of an entry - which decides whether the file or the folder privilege governs a delete, move or comment -
// is the kind of what an alias points to: the file store's Stat follows aliases.
func VH_C11_StatOfAnAliasDescribesItsTarget_sym() {
	vNSNames = []string{"/r/t/report.txt"}
	vNSData = [][]byte{{1, 2, 3}}
	vNSSizes = nil
	vNSFolders = []string{"/r/t/music"}
	vLinkNames = []string{"/r/d/file-alias", "/r/d/folder-alias"}
	vLinkTargets = []string{"/r/t/report.txt", "/r/t/music"}
	fi, err := (&OSFileStore{}).Stat("/r/d/file-alias")
	vAssert("stat_file_alias_ok", err == nil)
	if err == nil {
		vAssert("file_alias_is_a_regular_file_of_the_targets_size", fi.Mode().IsRegular() && fi.Size() == 3)
	}
	di, err := (&OSFileStore{}).Stat("/r/d/folder-alias")
	vAssert("stat_folder_alias_ok", err == nil)
	if err == nil {
		vAssert("folder_alias_is_a_folder", di.Mode().IsDir() && di.IsDir())
	}
}
