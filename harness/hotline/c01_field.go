package hotline

import "io"

// Layout + prefix of Field for every data length that fits the 16-bit prefix.
func VH_C01_FieldLayout() {
	t0, t1 := vU8("t0"), vU8("t1")
	data := vBytes("data", 65535)
	f := NewField([2]byte{t0, t1}, data)
	buf := make([]byte, 70000)
	n, err := f.Read(buf)
	vAssert("no_err", err == nil)
	vAssert("len", n == 4+len(data))
	vAssertEqBytes("layout", buf[:n], refField(t0, t1, data))
	vAssert("prefix", int(buf[2])<<8|int(buf[3]) == len(data))
	vObserveBytes("out", buf[:n])
}

// One drain step from an arbitrary cursor with an arbitrary buffer size.
func VH_C01_FieldDrain() {
	t0, t1 := vU8("t0"), vU8("t1")
	data := vBytes("data", 65535)
	f := NewField([2]byte{t0, t1}, data)
	full := refField(t0, t1, data)
	L := len(full)
	o := vInt("cursor")
	vAssume(0 <= o && o <= L)
	k := vInt("bufsize")
	vAssume(1 <= k && k <= 70000)
	f.readOffset = o
	p := make([]byte, k)
	n, err := f.Read(p)
	vObserveInt("n", n)
	if o == L {
		vAssert("eof", n == 0 && err == io.EOF)
		return
	}
	want := vMin(k, L-o)
	vAssert("n", n == want)
	vAssert("err", err == nil || (err == io.EOF && o+n == L))
	vAssertEqBytes("bytes", p[:n], full[o:o+n])
	vAssert("cursor", f.readOffset == o+n)
}
