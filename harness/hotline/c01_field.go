package hotline

// Layout + prefix of Field for every data length that fits the 16-bit prefix.
func VH_C01_FieldLayout() {
	t0, t1 := vU8("t0"), vU8("t1")
	data := vBytes("data", 65535)
	f := NewField([2]byte{t0, t1}, data)
	buf := make([]byte, 70000)
	n, err := f.Read(buf)
	vAssert("no_err", err == nil)
	vAssert("len", n == 4+len(data))
	vAssertEqBytes("layout", buf[:n], refField(t0, t1, data))
	vAssert("prefix", int(buf[2])<<8|int(buf[3]) == len(data))
	vObserveBytes("out", buf[:n])
}

// One drain step from an arbitrary cursor with an arbitrary buffer size.
func VH_C01_FieldDrain() {
	t0, t1 := vU8("t0"), vU8("t1")
	data := vBytes("data", 65535)
	f := NewField([2]byte{t0, t1}, data)
	c01DrainStep(vEnc{f.Read, func(o int) { f.readOffset = o }, func() int { return f.readOffset }}, refField(t0, t1, data), 70000)
}
