package hotline

import "io"

// vEnc abstracts an encoder with a read cursor so one drain-step check serves every type.
type vEnc struct {
	read   func(p []byte) (int, error)
	setOff func(int)
	getOff func() int
}

// c01DrainStep: from an arbitrary cursor o in [0,L] and buffer size k>=1, one Read returns min(k,L-o) bytes of
// the reference encoding starting at o, advances the cursor by that amount, and reports io.EOF exactly at the end
// (io.EOF together with the last bytes is accepted by io.Reader's contract).
func c01DrainStep(e vEnc, full []byte, maxBuf int) {
	L := len(full)
	o := vInt("cursor")
	vAssume(0 <= o && o <= L)
	k := vInt("bufsize")
	vAssume(1 <= k && k <= maxBuf)
	e.setOff(o)
	p := make([]byte, k)
	n, err := e.read(p)
	vObserveInt("n", n)
	if o == L {
		vAssert("drain_eof_at_end", n == 0 && err == io.EOF)
		return
	}
	vAssert("drain_count", n == vMin(k, L-o))
	vAssert("drain_err", err == nil || (err == io.EOF && o+n == L))
	vAssertEqBytes("drain_bytes", p[:n], full[o:o+n])
	vAssert("drain_cursor", e.getOff() == o+n)
	// a Read changes nothing but the cursor: re-reading from the start still yields the whole encoding
	e.setOff(0)
	again := make([]byte, L+64)
	m, _ := e.read(again)
	vAssertEqBytes("drain_step_leaves_encoding_unchanged", again[:m], full)
}

// c01Layout: one Read with a buffer longer than any encoding returns exactly the reference bytes.
func c01Layout(e vEnc, full []byte, bufLen int) {
	buf := make([]byte, bufLen)
	e.setOff(0)
	n, err := e.read(buf)
	vAssert("layout_err", err == nil || err == io.EOF)
	vAssertEqBytes("layout", buf[:n], full)
	vObserveBytes("out", buf[:vMin(n, 48)])
}

// ---- User: id(2) icon(2) flags(2) nameLen(2) name -------------------------------------------------

func c01User() (*User, []byte) {
	u := &User{ID: [2]byte{vU8("id0"), vU8("id1")}, Icon: vBytesN("icon", 2), Flags: vBytesN("flags", 2), Name: vString("name", 300)}
	ref := []byte{u.ID[0], u.ID[1], u.Icon[0], u.Icon[1], u.Flags[0], u.Flags[1]}
	ref = append(ref, refU16(len(u.Name))...)
	ref = append(ref, u.Name...)
	return u, ref
}
func c01UserEnc(u *User) vEnc {
	return vEnc{u.Read, func(o int) { u.readOffset = o }, func() int { return u.readOffset }}
}
func VH_C01_UserLayout() { u, ref := c01User(); c01Layout(c01UserEnc(u), ref, 1000) }
func VH_C01_UserDrain()  { u, ref := c01User(); c01DrainStep(c01UserEnc(u), ref, 1000) }
func VH_C01_UserRoundTrip() {
	u, ref := c01User()
	var d User
	n, err := d.Write(ref)
	vAssert("decode_ok", err == nil && n == len(ref))
	vAssert("id", d.ID == u.ID)
	vAssertEqBytes("icon", d.Icon, u.Icon)
	vAssertEqBytes("flags", d.Flags, u.Flags)
	vAssertEqBytes("name", []byte(d.Name), []byte(u.Name))
}

// ---- FileNameWithInfo: type(4) creator(4) size(4) rsvd(4) script(2) nameLen(2) name ------------------

func c01FNWI() (*FileNameWithInfo, []byte) {
	name := vBytes("name", 300)
	f := &FileNameWithInfo{Name: name}
	copy(f.Type[:], vBytesN("type", 4))
	copy(f.Creator[:], vBytesN("creator", 4))
	copy(f.FileSize[:], vBytesN("size", 4))
	copy(f.NameScript[:], vBytesN("script", 2))
	// the constructor idiom used by the listing code: NameSize is the 16-bit length of Name
	f.NameSize = [2]byte{byte(len(name) >> 8), byte(len(name))}
	var ref []byte
	ref = append(ref, f.Type[:]...)
	ref = append(ref, f.Creator[:]...)
	ref = append(ref, f.FileSize[:]...)
	ref = append(ref, 0, 0, 0, 0)
	ref = append(ref, f.NameScript[:]...)
	ref = append(ref, refU16(len(name))...)
	ref = append(ref, name...)
	return f, ref
}
func c01FNWIEnc(f *FileNameWithInfo) vEnc {
	return vEnc{f.Read, func(o int) { f.readOffset = o }, func() int { return f.readOffset }}
}
func VH_C01_FileNameWithInfoLayout() { f, ref := c01FNWI(); c01Layout(c01FNWIEnc(f), ref, 1000) }
func VH_C01_FileNameWithInfoDrain()  { f, ref := c01FNWI(); c01DrainStep(c01FNWIEnc(f), ref, 1000) }
func VH_C01_FileNameWithInfoRoundTrip() {
	f, ref := c01FNWI()
	var d FileNameWithInfo
	n, err := d.Write(ref)
	vAssert("decode_ok", err == nil && n == len(ref))
	vAssert("hdr", d.Type == f.Type && d.Creator == f.Creator && d.FileSize == f.FileSize && d.NameScript == f.NameScript && d.NameSize == f.NameSize)
	vAssertEqBytes("name", d.Name, f.Name)
}

// ---- FlatFileInformationFork: 72 fixed bytes, name, commentLen(2), comment ------------------------------

func c01FFIF() (*FlatFileInformationFork, []byte) {
	return c01FFIFWith(vBytes("name", 300), vBytes("comment", 300))
}

// name symbolic up to 255 bytes, comment of every length 0..2 (keeps all but one segment offset concrete)
func c01FFIFSmallComment() (*FlatFileInformationFork, []byte) {
	return c01FFIFWith(vBytes("name", 255), vBytesEach("comment", 2))
}

func c01FFIFWith(name, comment []byte) (*FlatFileInformationFork, []byte) {
	f := &FlatFileInformationFork{Name: name}
	copy(f.Platform[:], vBytesN("platform", 4))
	copy(f.TypeSignature[:], vBytesN("type", 4))
	copy(f.CreatorSignature[:], vBytesN("creator", 4))
	copy(f.Flags[:], vBytesN("flags", 4))
	copy(f.PlatformFlags[:], vBytesN("pflags", 4))
	copy(f.CreateDate[:], vBytesN("cdate", 8))
	copy(f.ModifyDate[:], vBytesN("mdate", 8))
	copy(f.NameScript[:], vBytesN("script", 2))
	f.SetComment(comment)
	var ref []byte
	ref = append(ref, f.Platform[:]...)
	ref = append(ref, f.TypeSignature[:]...)
	ref = append(ref, f.CreatorSignature[:]...)
	ref = append(ref, f.Flags[:]...)
	ref = append(ref, f.PlatformFlags[:]...)
	ref = append(ref, make([]byte, 32)...)
	ref = append(ref, f.CreateDate[:]...)
	ref = append(ref, f.ModifyDate[:]...)
	ref = append(ref, f.NameScript[:]...)
	ref = append(ref, refU16(len(name))...)
	ref = append(ref, name...)
	ref = append(ref, refU16(len(comment))...)
	ref = append(ref, comment...)
	return f, ref
}
func c01FFIFEnc(f *FlatFileInformationFork) vEnc {
	return vEnc{f.Read, func(o int) { f.readOffset = o }, func() int { return f.readOffset }}
}
func VH_C01_InfoForkLayout() {
	f, ref := c01FFIF()
	c01Layout(c01FFIFEnc(f), ref, 2000)
	sz := f.Size()
	vAssert("info_size_is_length", int(sz[0])<<24|int(sz[1])<<16|int(sz[2])<<8|int(sz[3]) == len(ref))
	ds := f.DataSize()
	vAssert("info_datasize_is_length", int(ds[0])<<24|int(ds[1])<<16|int(ds[2])<<8|int(ds[3]) == len(ref))
}
func VH_C01_InfoForkDrain() { f, ref := c01FFIF(); c01DrainStep(c01FFIFEnc(f), ref, 2000) }
func VH_C01_InfoForkRoundTrip() {
	f, ref := c01FFIF()
	var d FlatFileInformationFork
	n, err := d.Write(ref)
	vAssert("decode_ok", err == nil && n == len(ref))
	vAssert("hdr", d.Platform == f.Platform && d.TypeSignature == f.TypeSignature && d.CreatorSignature == f.CreatorSignature &&
		d.Flags == f.Flags && d.PlatformFlags == f.PlatformFlags && d.CreateDate == f.CreateDate && d.ModifyDate == f.ModifyDate && d.NameScript == f.NameScript)
	vAssertEqBytes("name", d.Name, f.Name)
	vAssertEqBytes("comment", d.Comment, f.Comment)
	var d2 FlatFileInformationFork
	vAssert("unmarshal_ok", d2.UnmarshalBinary(ref) == nil)
	vAssertEqBytes("name2", d2.Name, f.Name)
	vAssertEqBytes("comment2", d2.Comment, f.Comment)
	// the omitted-comment form (some clients): 72 fixed bytes + name only
	var d3 FlatFileInformationFork
	short := ref[:72+len(f.Name)]
	vAssert("unmarshal_short_ok", d3.UnmarshalBinary(short) == nil)
	vAssertEqBytes("name3", d3.Name, f.Name)
	vAssert("comment3_empty", len(d3.Comment) == 0)
}

// The comment over its whole 16-bit range (name of every length 0..2): offsets 74+name+comment exceed 65535, so any
// offset arithmetic done in 16 bits shows up here.
func VH_C01_InfoForkRoundTripLongComment() {
	f, ref := c01FFIFWith(vBytesEach("name", 2), vBytes("comment", 65535))
	var d FlatFileInformationFork
	n, err := d.Write(ref)
	vAssert("decode_ok", err == nil && n == len(ref))
	vAssertEqBytes("name", d.Name, f.Name)
	vAssertEqBytes("comment", d.Comment, f.Comment)
	var d2 FlatFileInformationFork
	vAssert("unmarshal_ok", d2.UnmarshalBinary(ref) == nil)
	vAssertEqBytes("name2", d2.Name, f.Name)
	vAssertEqBytes("comment2", d2.Comment, f.Comment)
	sz := f.Size()
	vAssert("info_size_is_length", int(sz[0])<<24|int(sz[1])<<16|int(sz[2])<<8|int(sz[3]) == len(ref))
}

// ---- flattened file object header: FILP(24) INFO hdr(16) info fork DATA hdr(16) ----------------------------

func c01FFO() (*flattenedFileObject, []byte) { return c01FFOWith(c01FFIFSmallComment()) }

// every name length 0..3 and comment length 0..2: all segment offsets concrete (used by the drain step, which is
// about cursor arithmetic; the full name range is covered by the layout harness)
func c01FFOSmall() (*flattenedFileObject, []byte) {
	return c01FFOWith(c01FFIFWith(vBytesEach("name", 1), vBytesEach("comment", 1)))
}

func c01FFOWith(info *FlatFileInformationFork, infoRef []byte) (*flattenedFileObject, []byte) {
	ffo := &flattenedFileObject{FlatFileInformationFork: *info}
	ffo.FlatFileHeader = FlatFileHeader{Format: [4]byte{'F', 'I', 'L', 'P'}, Version: [2]byte{0, 1}, ForkCount: [2]byte{0, vU8("forks")}}
	ffo.FlatFileDataForkHeader = FlatFileForkHeader{ForkType: [4]byte{'D', 'A', 'T', 'A'}}
	copy(ffo.FlatFileDataForkHeader.DataSize[:], vBytesN("datasize", 4))
	ref := []byte{'F', 'I', 'L', 'P', 0, 1}
	ref = append(ref, make([]byte, 16)...)
	ref = append(ref, 0, ffo.FlatFileHeader.ForkCount[1])
	ref = append(ref, 'I', 'N', 'F', 'O', 0, 0, 0, 0, 0, 0, 0, 0)
	ref = append(ref, refU32(len(infoRef))...)
	ref = append(ref, infoRef...)
	ref = append(ref, 'D', 'A', 'T', 'A', 0, 0, 0, 0, 0, 0, 0, 0)
	ref = append(ref, ffo.FlatFileDataForkHeader.DataSize[:]...)
	return ffo, ref
}
func c01FFOEnc(f *flattenedFileObject) vEnc {
	return vEnc{f.Read, func(o int) { f.readOffset = o }, func() int { return f.readOffset }}
}
func VH_C01_FlatFileObjectLayout() { f, ref := c01FFO(); c01Layout(c01FFOEnc(f), ref, 2000) }
func VH_C01_FlatFileObjectDrain()  { f, ref := c01FFOSmall(); c01DrainStep(c01FFOEnc(f), ref, 2000) }

// ---- folder item header: size(2) type(2) {count(2) {00 00 len(1) name}*} -----------------------------------

func VH_C01_FileHeaderLayout() {
	vUnroll(300)
	// path with 1..2 segments; segment lengths 0,1,2 and the one-byte-prefix boundary 255; bytes arbitrary except '/'
	lens := []int{0, 1, 2, 255}
	a := string(vBytesN("seg_a", lens[vChoice("len_a", 4)]))
	vAssume(vNoSlash(a))
	isDir := vBool("isdir")
	var path string
	nseg := 1 + vChoice("extra_seg", 2)
	var ref []byte
	if nseg == 1 {
		path = a
		ref = append(refU16(1), 0, 0, byte(len(a)))
		ref = append(ref, a...)
	} else {
		b := string(vBytesN("seg_b", lens[vChoice("len_b", 4)]))
		vAssume(vNoSlash(b))
		path = a + "/" + b
		ref = append(refU16(2), 0, 0, byte(len(a)))
		ref = append(ref, a...)
		ref = append(ref, 0, 0, byte(len(b)))
		ref = append(ref, b...)
	}
	ty := byte(0)
	if isDir {
		ty = 1
	}
	full := append(refU16(len(ref)+2), 0, ty)
	full = append(full, ref...)
	fh := NewFileHeader(path, isDir)
	enc := vEnc{fh.Read, func(o int) { fh.readOffset = o }, func() int { return fh.readOffset }}
	c01Layout(enc, full, 2000)
	vAssertEqBytes("encode_file_path", EncodeFilePath(path), ref)
}

func vNoSlash(s string) bool {
	ok := true
	for i := 0; i < len(s); i++ {
		if s[i] == '/' {
			ok = false
		}
	}
	return ok
}

func VH_C01_FileHeaderDrain() {
	fh := FileHeader{Size: [2]byte{vU8("s0"), vU8("s1")}, Type: [2]byte{0, vU8("ty")}, FilePath: vBytes("path", 600)}
	full := []byte{fh.Size[0], fh.Size[1], fh.Type[0], fh.Type[1]}
	full = append(full, fh.FilePath...)
	c01DrainStep(vEnc{fh.Read, func(o int) { fh.readOffset = o }, func() int { return fh.readOffset }}, full, 2000)
}

// ---- tracker registration: 00 01 port(2) users(2) 00 00 passID(4) {len(1) text}x3 ----------------------------

func c01Tracker() (*TrackerRegistration, []byte) {
	tr := &TrackerRegistration{Port: [2]byte{vU8("p0"), vU8("p1")}, UserCount: int(vU16("users")), Name: vString("name", 255), Description: string(vBytesEach("desc", 2)), Password: string(vBytesEach("pass", 2))}
	copy(tr.PassID[:], vBytesN("passid", 4))
	ref := []byte{0, 1, tr.Port[0], tr.Port[1], byte(tr.UserCount >> 8), byte(tr.UserCount), 0, 0}
	ref = append(ref, tr.PassID[:]...)
	ref = append(ref, byte(len(tr.Name)))
	ref = append(ref, tr.Name...)
	ref = append(ref, byte(len(tr.Description)))
	ref = append(ref, tr.Description...)
	ref = append(ref, byte(len(tr.Password)))
	ref = append(ref, tr.Password...)
	return tr, ref
}
func c01TrackerEnc(tr *TrackerRegistration) vEnc {
	return vEnc{tr.Read, func(o int) { tr.readOffset = o }, func() int { return tr.readOffset }}
}
func VH_C01_TrackerLayout() { tr, ref := c01Tracker(); c01Layout(c01TrackerEnc(tr), ref, 2000) }
func VH_C01_TrackerDrain()  { tr, ref := c01Tracker(); c01DrainStep(c01TrackerEnc(tr), ref, 2000) }

// ---- resume data: "RFLT" ver(2) rsvd(34) count(2) + 16 per fork ------------------------------------------

func VH_C01_ResumeDataRoundTrip() {
	off := vBytesN("offset", 4)
	frd := NewFileResumeData([]ForkInfoList{*NewForkInfoList(off)})
	b, err := frd.BinaryMarshal()
	vAssert("marshal_ok", err == nil)
	ref := []byte{'R', 'F', 'L', 'T', 0, 1}
	ref = append(ref, make([]byte, 34)...)
	ref = append(ref, 0, 1, 'D', 'A', 'T', 'A')
	ref = append(ref, off...)
	ref = append(ref, make([]byte, 8)...)
	vAssertEqBytes("layout", b, ref)
	var d FileResumeData
	vAssert("unmarshal_ok", d.UnmarshalBinary(b) == nil)
	vAssert("count", len(d.ForkInfoList) == 1)
	vAssert("fork", d.ForkInfoList[0].Fork == [4]byte{'D', 'A', 'T', 'A'})
	vAssertEqBytes("offset", d.ForkInfoList[0].DataSize[:], off)
	vObserveBytes("out", b)
}

// ---- obfuscated strings and integer fields ---------------------------------------------------------------------

func VH_C01_EncodeStringInvolution() {
	s := vBytesEach("s", 8)
	e := EncodeString(s)
	vAssert("len", len(e) == len(s))
	for i := 0; i < len(s); i++ {
		vAssert("byte", e[i] == 255-s[i])
	}
	vAssertEqBytes("involution", EncodeString(e), s)
}

func VH_C01_DecodeInt() {
	x := vU32("x")
	f4 := NewField(FieldFileSize, []byte{byte(x >> 24), byte(x >> 16), byte(x >> 8), byte(x)})
	v, err := f4.DecodeInt()
	vAssert("int32", err == nil && v == int(x))
	y := vU16("y")
	f2 := NewField(FieldFileSize, []byte{byte(y >> 8), byte(y)})
	v, err = f2.DecodeInt()
	vAssert("int16", err == nil && v == int(y))
	n := vChoice("badlen", 6)
	if n != 2 && n != 4 {
		fb := NewField(FieldFileSize, make([]byte, n))
		_, err = fb.DecodeInt()
		vAssert("badlen_err", err != nil)
	}
}
