package hotline

// Shared reference encoders (written from the Hotline 1.9 protocol document, not from the code under test).

func refU16(x int) []byte { return []byte{byte(x >> 8), byte(x)} }
func refU32(x int) []byte { return []byte{byte(x >> 24), byte(x >> 16), byte(x >> 8), byte(x)} }

// refField: id(2) size(2) data
func refField(t0, t1 byte, data []byte) []byte {
	out := []byte{t0, t1, byte(len(data) >> 8), byte(len(data))}
	return append(out, data...)
}

func vMin(a, b int) int {
	if a < b {
		return a
	}
	return b
}

// bcrypt contract (engine-only replacement; native replay uses the real bcrypt):
// hash = "H:" ++ password;  Compare(h, p) == nil  <=>  h == "H:" ++ p.
func vStub_bcrypt_GenerateFromPassword(password []byte, cost int) ([]byte, error) {
	return append([]byte("H:"), password...), nil
}

type vErr struct{}

func (vErr) Error() string { return "verif: stub error" }

func vStub_bcrypt_CompareHashAndPassword(hashedPassword, password []byte) error {
	if string(hashedPassword) == "H:"+string(password) {
		return nil
	}
	return vErr{}
}

// refTransaction: flags(1) isReply(1) type(2) id(4) error(4) total(4) data(4) count(2) fields
func refTransaction(t *Transaction, fields [][]byte) []byte {
	total := 2
	for _, f := range fields {
		total += len(f)
	}
	out := []byte{t.Flags, t.IsReply, t.Type[0], t.Type[1]}
	out = append(out, t.ID[:]...)
	out = append(out, t.ErrorCode[:]...)
	out = append(out, refU32(total)...)
	out = append(out, refU32(total)...)
	out = append(out, refU16(len(fields))...)
	for _, f := range fields {
		out = append(out, f...)
	}
	return out
}

