package hotline

import (
	"io"
	"log/slog"
	"sync"
	"time"
)

// Shared reference encoders (written from the Hotline 1.9 protocol document, not from the code under test).

func refU16(x int) []byte { return []byte{byte(x >> 8), byte(x)} }
func refU32(x int) []byte { return []byte{byte(x >> 24), byte(x >> 16), byte(x >> 8), byte(x)} }

// refField: id(2) size(2) data
func refField(t0, t1 byte, data []byte) []byte {
	out := []byte{t0, t1, byte(len(data) >> 8), byte(len(data))}
	return append(out, data...)
}

func vMin(a, b int) int {
	if a < b {
		return a
	}
	return b
}

// bcrypt contract (engine-only replacement; native replay uses the real bcrypt):
// hash = "H:" ++ salt(2 arbitrary bytes) ++ password;  Compare(h, p) == nil  <=>  h = "H:" ++ any 2 bytes ++ p.
func vStub_bcrypt_GenerateFromPassword(password []byte, cost int) ([]byte, error) {
	salt := vBytesN("bcrypt.salt", 2) // every hash is salted: two hashes of one password differ as strings
	return append(append([]byte("H:"), salt...), password...), nil
}

type vErr struct{}

func (vErr) Error() string { return "verif: stub error" }

func vStub_bcrypt_CompareHashAndPassword(hashedPassword, password []byte) error {
	if vIsHashOf(string(hashedPassword), string(password)) {
		return nil
	}
	return vErr{}
}

// refTransaction: flags(1) isReply(1) type(2) id(4) error(4) total(4) data(4) count(2) fields
func refTransaction(t *Transaction, fields [][]byte) []byte {
	total := 2
	for _, f := range fields {
		total += len(f)
	}
	out := []byte{t.Flags, t.IsReply, t.Type[0], t.Type[1]}
	out = append(out, t.ID[:]...)
	out = append(out, t.ErrorCode[:]...)
	out = append(out, refU32(total)...)
	out = append(out, refU32(total)...)
	out = append(out, refU16(len(fields))...)
	for _, f := range fields {
		out = append(out, f...)
	}
	return out
}

// ---- stubs for connection-level harnesses -----------------------------------------------------------

type vAcctStub struct {
	exists   bool
	account  Account
	getCalls []string
	mutated  int
}

func (m *vAcctStub) Create(a Account) error                  { m.mutated++; return nil }
func (m *vAcctStub) Update(a Account, newLogin string) error { m.mutated++; return nil }
func (m *vAcctStub) Delete(login string) error               { m.mutated++; return nil }
func (m *vAcctStub) List() []Account                         { return nil }
func (m *vAcctStub) Get(login string) *Account {
	m.getCalls = append(m.getCalls, login)
	if !m.exists || login != m.account.Login {
		return nil
	}
	a := m.account
	return &a
}

type vBanStub struct {
	banned  bool
	until   *time.Time
	queries []string
	added   int
}

func (b *vBanStub) Add(ip string, until *time.Time) error { b.added++; return nil }
func (b *vBanStub) IsBanned(ip string) (bool, *time.Time) {
	b.queries = append(b.queries, ip)
	return b.banned, b.until
}

type vSeeker struct {
	text []byte
	off  int
}

func (s *vSeeker) Read(p []byte) (int, error) {
	if s.off >= len(s.text) {
		return 0, io.EOF
	}
	n := copy(p, s.text[s.off:])
	s.off += n
	return n, nil
}
func (s *vSeeker) Seek(o int64, w int) (int64, error) { s.off = int(o); return o, nil }

// The server's outbox is an unbuffered channel drained by another goroutine in the real server. Symbolically a send
// just queues; natively (replay) a collector goroutine plays the drainer.
var vOutboxMu sync.Mutex
var vOutboxGot []Transaction

func vStartOutbox(s *Server) {
	if vSymbolic() {
		return
	}
	vOutboxMu.Lock()
	vOutboxGot = nil
	vOutboxMu.Unlock()
	go func() {
		for t := range s.outbox {
			vOutboxMu.Lock()
			vOutboxGot = append(vOutboxGot, t)
			vOutboxMu.Unlock()
		}
	}()
}

func vDrainOutbox(s *Server) []Transaction {
	if !vSymbolic() {
		time.Sleep(20 * time.Millisecond)
		vOutboxMu.Lock()
		defer vOutboxMu.Unlock()
		out := vOutboxGot
		vOutboxGot = nil
		return out
	}
	var out []Transaction
	for len(s.outbox) > 0 {
		out = append(out, <-s.outbox)
	}
	return out
}

// vLogger: a real logger that discards (logging is a no-op in the symbolic run).
func vLogger() *slog.Logger { return slog.New(slog.NewTextHandler(io.Discard, nil)) }

// vIsHashOf: h is a (stub) hash of pw, whatever its salt.
func vIsHashOf(h, pw string) bool {
	return len(h) >= 4 && h[0] == 'H' && h[1] == ':' && h[4:] == pw
}
