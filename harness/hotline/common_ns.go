package hotline

import (
	"io"
	"io/fs"
	"os"
	"path/filepath"
)

// ---- namespace model for the os calls UploadHandler makes directly (engine-only) ----------------------------------

var vNSNames []string
var vNSData [][]byte
var vNSSizes []int // optional: sizes reported by Stat when they differ from len(data) (large files without content)
var vNSWrites int

func vNSFind(name string) int {
	for i, n := range vNSNames {
		if n == name {
			return i
		}
	}
	return -1
}

// aliases of the namespace: vLinkNames[i] is a symbolic link to vLinkTargets[i]; folders are listed in vNSFolders
var vLinkNames, vLinkTargets, vNSFolders []string

func vLinkIndex(name string) int {
	for i, n := range vLinkNames {
		if n == name {
			return i
		}
	}
	return -1
}

// lstat: describes the link itself
func vStub_os_Lstat(name string) (fs.FileInfo, error) {
	name = filepath.Clean(name)
	if i := vLinkIndex(name); i >= 0 {
		return &vInfo{name: filepath.Base(name), size: int64(len(vLinkTargets[i])), link: true}, nil
	}
	return vStub_os_Stat(name)
}

func vStub_os_Readlink(name string) (string, error) {
	if i := vLinkIndex(filepath.Clean(name)); i >= 0 {
		return vLinkTargets[i], nil
	}
	return "", fs.ErrInvalid
}

// stat: follows links, however many there are in a row
func vStub_os_Stat(name string) (fs.FileInfo, error) {
	name = filepath.Clean(name) // the kernel resolves "a//b" like "a/b"
	for hops := 0; hops < 8; hops++ {
		i := vLinkIndex(name)
		if i < 0 {
			break
		}
		name = filepath.Clean(vLinkTargets[i])
	}
	for _, d := range vNSFolders {
		if d == name {
			return &vInfo{name: filepath.Base(name), dir: true}, nil
		}
	}
	for i, n := range vNSNames {
		if n == name {
			sz := len(vNSData[i])
			if i < len(vNSSizes) {
				sz = vNSSizes[i]
			}
			base := name
			for j := len(name) - 1; j >= 0; j-- {
				if name[j] == '/' {
					base = name[j+1:]
					break
				}
			}
			return &vInfo{name: base, size: int64(sz)}, nil
		}
	}
	return nil, fs.ErrNotExist
}

var vNSOpen = map[*os.File]string{}
var vNSWrote = map[*os.File]bool{} // handles something was written through

func vStub_os_OpenFile(name string, flag int, perm os.FileMode) (*os.File, error) {
	name = filepath.Clean(name)
	if vNSFind(name) < 0 {
		if flag&os.O_CREATE == 0 {
			return nil, fs.ErrNotExist
		}
		vNSNames = append(vNSNames, name)
		vNSData = append(vNSData, []byte{})
	}
	f := new(os.File)
	vNSOpen[f] = name
	return f, nil
}

func vStub_os_File_Write(f *os.File, b []byte) (int, error) {
	name := vNSOpen[f]
	for i, n := range vNSNames {
		if n == name {
			vNSData[i] = append(append([]byte(nil), vNSData[i]...), b...) // O_APPEND
			vNSWrites++
			vNSWrote[f] = true
			return len(b), nil
		}
	}
	return 0, fs.ErrInvalid
}

// io.CopyN hands the copy to (*os.File).ReadFrom: bytes are appended as they arrive, a read error ends the copy.
func vStub_os_File_ReadFrom(f *os.File, r io.Reader) (int64, error) {
	var total int64
	buf := make([]byte, 32768)
	for i := 0; i < 8; i++ {
		n, err := r.Read(buf)
		if n > 0 {
			vStub_os_File_Write(f, buf[:n])
			total += int64(n)
		}
		if err == io.EOF {
			return total, nil
		}
		if err != nil {
			return total, err
		}
	}
	return total, nil
}

// the file store used for the final rename operates on the same namespace
type vNSStore struct{ vStore }

func (s *vNSStore) Stat(name string) (fs.FileInfo, error) { return vStub_os_Stat(name) }
func (s *vNSStore) Rename(oldpath string, newpath string) error {
	oldpath, newpath = filepath.Clean(oldpath), filepath.Clean(newpath)
	i := vNSFind(oldpath)
	if i < 0 {
		return fs.ErrNotExist
	}
	if j := vNSFind(newpath); j >= 0 {
		vNSData[j] = vNSData[i]
		vNSNames = append(vNSNames[:i:i], vNSNames[i+1:]...)
		vNSData = append(vNSData[:i:i], vNSData[i+1:]...)
		return nil
	}
	vNSNames[i] = newpath
	return nil
}

func vStub_os_Mkdir(name string, perm os.FileMode) error {
	name = filepath.Clean(name)
	if vNSFind(name) >= 0 {
		return fs.ErrExist
	}
	vNSNames = append(vNSNames, name)
	vNSData = append(vNSData, nil)
	vNSDirs = append(vNSDirs, name)
	return nil
}

var vNSDirs []string

func vStub_os_Rename(oldpath, newpath string) error {
	return (&vNSStore{}).Rename(oldpath, newpath)
}

func (s *vNSStore) Mkdir(name string, perm os.FileMode) error { return vStub_os_Mkdir(name, perm) }

// reads go to the same namespace as Stat and the writes
func (s *vNSStore) ReadFile(name string) ([]byte, error) {
	if i := vNSFind(filepath.Clean(name)); i >= 0 {
		return append([]byte(nil), vNSData[i]...), nil
	}
	return nil, fs.ErrNotExist
}

// removals act on the same namespace (a store whose Remove did nothing would hide a partial upload being deleted)
func (s *vNSStore) Remove(name string) error {
	name = filepath.Clean(name)
	i := vNSFind(name)
	if i < 0 {
		return fs.ErrNotExist
	}
	vNSNames = append(vNSNames[:i:i], vNSNames[i+1:]...)
	vNSData = append(vNSData[:i:i], vNSData[i+1:]...)
	return nil
}
func (s *vNSStore) RemoveAll(name string) error {
	name = filepath.Clean(name)
	for i := len(vNSNames) - 1; i >= 0; i-- {
		n := vNSNames[i]
		if n == name || len(n) > len(name) && n[:len(name)] == name && n[len(name)] == '/' {
			vNSNames = append(vNSNames[:i:i], vNSNames[i+1:]...)
			vNSData = append(vNSData[:i:i], vNSData[i+1:]...)
		}
	}
	return nil
}
