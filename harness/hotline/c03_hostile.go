package hotline

// c03Server: a server with one well-behaved logged-in client and a guest account.
func c03Server() (*Server, *ClientConn, *vAcctStub) {
	srv, _ := NewServer()
	srv.Logger = vLogger()
	vStartOutbox(srv)
	acct := &vAcctStub{exists: true, account: Account{Login: "guest", Name: "g", Password: HashAndSalt(nil)}}
	srv.AccountManager = acct
	srv.BanList = &vBanStub{}
	srv.Agreement = &vSeeker{text: []byte("agreement")}
	other := &ClientConn{Connection: &vRecConn{}, Server: srv, Account: &Account{Login: "o"}, UserName: []byte("o"), ClientFileTransferMgr: NewClientFileTransferMgr()}
	srv.ClientMgr.Add(other)
	return srv, other, acct
}

var c03Handshake = []byte{'T', 'R', 'T', 'P', 'H', 'O', 'T', 'L', 0, 1, 0, 2}

// Arbitrary bytes after a valid handshake (a hostile "login"): the connection handler returns, no panic escapes it,
// and registry and counters are exactly what the well-behaved client alone accounts for.
func VH_C03_GarbageAfterHandshake() {
	srv, other, _ := c03Server()
	before := srv.Stats.Get(StatCurrentlyConnected)
	garbage := vBytesEach("garbage", 30)
	stream := append(append([]byte(nil), c03Handshake...), garbage...)
	conn := &vRW{r: &vChunkReader{data: stream, whole: true}}
	srv.handleNewConnection(nil, conn, "10.9.9.9:1000")
	vDrainOutbox(srv)
	l := srv.ClientMgr.List()
	vAssert("registry_only_well_behaved_client", len(l) == 1 && l[0] == other)
	vAssert("connected_counter_restored", srv.Stats.Get(StatCurrentlyConnected) == before)
}

// A logged-in client sends a request whose handler faults on the hostile field (as the real handlers do on short
// ID fields): the fault is contained to that connection, which is closed and announced as left; counters and
// registry are restored; the other client is untouched.
func VH_C03_HandlerFaultContained() {
	srv, other, _ := c03Server()
	before := srv.Stats.Get(StatCurrentlyConnected)
	srv.HandleFunc(TranGetClientInfoText, func(cc *ClientConn, t *Transaction) []Transaction {
		id := [2]byte(t.GetField(FieldUserID).Data) // panics when the field is shorter than 2 bytes
		return []Transaction{cc.NewReply(t, NewField(FieldUserID, id[:]))}
	})
	login := Transaction{Type: TranLogin, ID: [4]byte{0, 0, 0, 1}}
	idField := vBytesEach("userid_field", 3)
	req := Transaction{Type: TranGetClientInfoText, ID: [4]byte{0, 0, 0, 2}}
	stream := append([]byte(nil), c03Handshake...)
	stream = append(stream, refTransaction(&login, nil)...)
	stream = append(stream, refTransaction(&req, [][]byte{refField(FieldUserID[0], FieldUserID[1], idField)})...)
	conn := &vRW{r: &vChunkReader{data: stream, whole: true}}
	srv.handleNewConnection(nil, conn, "10.9.9.9:1000")
	out := vDrainOutbox(srv)
	l := srv.ClientMgr.List()
	vAssert("registry_restored_after_fault", len(l) == 1 && l[0] == other)
	vAssert("connected_counter_restored_after_fault", srv.Stats.Get(StatCurrentlyConnected) == before)
	// the other client learns that the hostile user came (no: 1.5+ flow announces at agreement) and left
	left := 0
	for _, t := range out {
		if t.ClientID == other.ID && t.Type == TranNotifyDeleteUser {
			left++
		}
	}
	vAssert("departure_of_faulting_client_announced_once", left == 1)
}

// Transfer port: arbitrary 16-byte preamble, with one pending transfer registered: the handler returns, no panic
// escapes, and the in-progress counters are back where they were.
func VH_C03_TransferGarbageContained() {
	srv, other, _ := c03Server()
	srv.FS = &vStore{}
	ft := other.NewFileTransfer(FileTransferType(vChoice("transfer_type", 5)), "/r", []byte("f.bin"), nil, []byte{0, 0, 0, 0})
	d0, u0 := srv.Stats.Get(StatDownloadsInProgress), srv.Stats.Get(StatUploadsInProgress)
	pre := vBytesN("preamble", 16)
	useRef := vBool("preamble_names_the_pending_transfer")
	if useRef {
		copy(pre[0:4], []byte("HTXF"))
		copy(pre[4:8], ft.RefNum[:])
	}
	tail := vBytesEach("tail", 6)
	conn := &vRW{r: &vChunkReader{data: append(append([]byte(nil), pre...), tail...), whole: true}}
	srv.handleFileTransfer(nil, conn)
	vAssert("downloads_in_progress_restored", srv.Stats.Get(StatDownloadsInProgress) == d0)
	vAssert("uploads_in_progress_restored", srv.Stats.Get(StatUploadsInProgress) == u0)
	if useRef {
		vAssert("finished_transfer_removed", srv.FileTransferMgr.Get(ft.RefNum) == nil)
	}
}
