package hotline

// c03Server: a server with one well-behaved logged-in client and a guest account.
func c03Server() (*Server, *ClientConn, *vAcctStub) {
	srv, _ := NewServer()
	srv.Logger = vLogger()
	vStartOutbox(srv)
	acct := &vAcctStub{exists: true, account: Account{Login: "guest", Name: "g", Password: HashAndSalt(nil)}}
	srv.AccountManager = acct
	srv.BanList = &vBanStub{}
	srv.Agreement = &vSeeker{text: []byte("agreement")}
	other := &ClientConn{Connection: &vRecConn{}, Server: srv, Account: &Account{Login: "o"}, UserName: []byte("o"), ClientFileTransferMgr: NewClientFileTransferMgr()}
	srv.ClientMgr.Add(other)
	return srv, other, acct
}

var c03Handshake = []byte{'T', 'R', 'T', 'P', 'H', 'O', 'T', 'L', 0, 1, 0, 2}

// Arbitrary bytes after a valid handshake (a hostile "login"): the connection handler returns, no panic escapes it,
// and registry and counters are exactly what the well-behaved client alone accounts for.
func VH_C03_GarbageAfterHandshake() {
	srv, other, _ := c03Server()
	before := srv.Stats.Get(StatCurrentlyConnected)
	garbage := vBytesEach("garbage", 30)
	stream := append(append([]byte(nil), c03Handshake...), garbage...)
	conn := &vRW{r: &vChunkReader{data: stream, whole: true}}
	srv.handleNewConnection(nil, conn, "10.9.9.9:1000")
	vDrainOutbox(srv)
	l := srv.ClientMgr.List()
	vAssert("registry_only_well_behaved_client", len(l) == 1 && l[0] == other)
	vAssert("connected_counter_restored", srv.Stats.Get(StatCurrentlyConnected) == before)
}

// A logged-in client sends a request whose handler faults on the hostile field (as the real handlers do on short
// ID fields): the fault is contained to that connection, which is closed and announced as left; counters and
// registry are restored; the other client is untouched.
func VH_C03_HandlerFaultContained() {
	srv, other, _ := c03Server()
	before := srv.Stats.Get(StatCurrentlyConnected)
	srv.HandleFunc(TranGetClientInfoText, func(cc *ClientConn, t *Transaction) []Transaction {
		id := [2]byte(t.GetField(FieldUserID).Data) // panics when the field is shorter than 2 bytes
		return []Transaction{cc.NewReply(t, NewField(FieldUserID, id[:]))}
	})
	login := Transaction{Type: TranLogin, ID: [4]byte{0, 0, 0, 1}}
	idField := vBytesEach("userid_field", 3)
	req := Transaction{Type: TranGetClientInfoText, ID: [4]byte{0, 0, 0, 2}}
	stream := append([]byte(nil), c03Handshake...)
	stream = append(stream, refTransaction(&login, nil)...)
	stream = append(stream, refTransaction(&req, [][]byte{refField(FieldUserID[0], FieldUserID[1], idField)})...)
	conn := &vRW{r: &vChunkReader{data: stream, whole: true}}
	srv.handleNewConnection(nil, conn, "10.9.9.9:1000")
	out := vDrainOutbox(srv)
	l := srv.ClientMgr.List()
	vAssert("registry_restored_after_fault", len(l) == 1 && l[0] == other)
	vAssert("connected_counter_restored_after_fault", srv.Stats.Get(StatCurrentlyConnected) == before)
	// the other client learns that the hostile user came (no: 1.5+ flow announces at agreement) and left
	left := 0
	for _, t := range out {
		if t.ClientID == other.ID && t.Type == TranNotifyDeleteUser {
			left++
		}
	}
	vAssert("departure_of_faulting_client_announced_once", left == 1)
}

// Transfer port: arbitrary 16-byte preamble, with one pending transfer registered: the handler returns, no panic
// escapes, and the in-progress counters are back where they were.
func VH_C03_TransferGarbageContained() {
	srv, other, _ := c03Server()
	srv.FS = &vStore{}
	ft := other.NewFileTransfer(FileTransferType(vChoice("transfer_type", 5)), "/r", []byte("f.bin"), nil, []byte{0, 0, 0, 0})
	d0, u0 := srv.Stats.Get(StatDownloadsInProgress), srv.Stats.Get(StatUploadsInProgress)
	pre := vBytesN("preamble", 16)
	useRef := vBool("preamble_names_the_pending_transfer")
	if useRef {
		copy(pre[0:4], []byte("HTXF"))
		copy(pre[4:8], ft.RefNum[:])
	}
	tail := vBytesEach("tail", 6)
	conn := &vRW{r: &vChunkReader{data: append(append([]byte(nil), pre...), tail...), whole: true}}
	srv.handleFileTransfer(nil, conn)
	vAssert("downloads_in_progress_restored", srv.Stats.Get(StatDownloadsInProgress) == d0)
	vAssert("uploads_in_progress_restored", srv.Stats.Get(StatUploadsInProgress) == u0)
	if useRef {
		vAssert("finished_transfer_removed", srv.FileTransferMgr.Get(ft.RefNum) == nil)
	}
}

func c03Recovered(fn func()) {
	defer func() { recover() }()
	fn()
}

// The shared registries survive being asked about things that do not exist (a transfer reference presented twice is
// deleted twice; chat and client IDs are whatever a client sent): the call may fault - the caller recovers and drops
// that connection - but the registry's lock is released, so the next client is not blocked forever.
func VH_C03_RegistryLocksReleasedOnFault_sym() {
	srv, other, _ := c03Server()
	ft := other.NewFileTransfer(FileDownload, "/r", []byte("f.bin"), nil, []byte{0, 0, 0, 0})
	ref := [4]byte(vBytesN("reference", 4))
	id2 := [2]byte(vBytesN("client_id", 2))
	chat := ChatID(vBytesN("chat_id", 4))
	switch vChoice("registry_call", 9) {
	case 0:
		c03Recovered(func() { srv.FileTransferMgr.Delete(ft.RefNum) })
		c03Recovered(func() { srv.FileTransferMgr.Delete(ft.RefNum) }) // second connection with the same reference
	case 1:
		c03Recovered(func() { srv.FileTransferMgr.Delete(ref) })
	case 2:
		c03Recovered(func() { srv.FileTransferMgr.Get(ref) })
	case 3:
		c03Recovered(func() { srv.ClientMgr.Delete(id2) })
	case 4:
		c03Recovered(func() { srv.ClientMgr.Get(id2) })
	case 5:
		c03Recovered(func() { srv.ChatMgr.Join(chat, other) })
	case 6:
		c03Recovered(func() { srv.ChatMgr.Leave(chat, id2) })
	case 7:
		c03Recovered(func() { srv.ChatMgr.SetSubject(chat, "s") })
	default:
		c03Recovered(func() { srv.ChatMgr.Members(chat); srv.ChatMgr.GetSubject(chat) })
	}
	vAssert("registry_lock_released_even_when_the_call_faults", vLocksHeldNow() == 0)
}

// vStallConn is a client that stopped reading its socket: Write records how many queued transactions were still
// waiting in the server's outbox when the write to this client began.
type vStallConn struct {
	vRecConn
	srv            *Server
	waitingAtWrite int
	wrote          bool
}

func (c *vStallConn) Write(p []byte) (int, error) {
	if !c.wrote {
		c.wrote = true
		c.waitingAtWrite = len(c.srv.outbox)
	}
	return len(p), nil
}

// One client that does not read its socket must not hold up what the server has queued for everybody else: the
// connection offers no write deadline (io.ReadWriteCloser), so the single outbox consumer must never be the flow
// that performs a client's socket write. Schedule explored: the consumer runs until it blocks on the empty outbox,
// then every goroutine it started; whenever a write to the stalled client begins nothing is left waiting behind it.
func VH_C03_StalledClientDoesNotHoldUpOutbox_sym() {
	srv, _ := NewServer()
	srv.Logger = vLogger()
	stall := &vStallConn{srv: srv}
	bad := &ClientConn{Connection: stall, Server: srv, Account: &Account{Login: "s"}, UserName: []byte("s")}
	goodConn := &vRecConn{}
	good := &ClientConn{Connection: goodConn, Server: srv, Account: &Account{Login: "o"}, UserName: []byte("o")}
	srv.ClientMgr.Add(bad)
	srv.ClientMgr.Add(good)
	d := vBytesEach("data", 2)
	srv.outbox <- NewTransaction(TranServerMsg, bad.ID, NewField(FieldData, d))
	srv.outbox <- NewTransaction(TranServerMsg, good.ID, NewField(FieldData, d))
	go srv.processOutbox()
	vRunSpawned()
	// (if this schedule never reaches the stalled client's socket - some other delivery design - nothing is claimed)
	if stall.wrote {
		vAssert("nothing_waits_behind_a_write_to_a_stalled_client", stall.waitingAtWrite == 0)
	}
	_ = goodConn
}
