package hotline

import "path/filepath"

// vWithin: p is root itself or lies strictly below it, and contains no ".." component (byte-wise check).
func vWithin(root, p string) bool {
	if len(p) < len(root) || p[:len(root)] != root {
		return false
	}
	if len(p) > len(root) && p[len(root)] != '/' {
		return false
	}
	// no component equal to ".."
	for i := 0; i+1 < len(p); i++ {
		if p[i] == '.' && p[i+1] == '.' && (i == 0 || p[i-1] == '/') && (i+2 == len(p) || p[i+2] == '/') {
			return false
		}
	}
	return true
}

func c07PathField(items [][]byte) []byte {
	b := []byte{0, byte(len(items))}
	for _, it := range items {
		b = append(b, 0, 0, byte(len(it)))
		b = append(b, it...)
	}
	return b
}

// Every path the file handlers build from client bytes stays inside the file root: one path item and a file name,
// each an arbitrary byte string (any byte values incl. '/', '.', NUL, high bytes) of every length up to n.
func c07ReadPath(n int) {
	vUnroll(200)
	item := vBytesEach("item", n)
	name := vBytesEach("name", n)
	p, err := ReadPath("/r", c07PathField([][]byte{item}), name)
	if err == nil {
		vAssert("readpath_stays_in_root", vWithin("/r", p))
	}
	vObserveString("path", p)
}

func VH_C07_ReadPath_quick()    { c07ReadPath(3) }
func VH_C07_ReadPath_thorough() { c07ReadPath(4) }

// two path items
func VH_C07_ReadPathTwoItems() {
	vUnroll(200)
	a := vBytesEach("item_a", 2)
	b := vBytesEach("item_b", 2)
	name := vBytesEach("name", 2)
	p, err := ReadPath("/r", c07PathField([][]byte{a, b}), name)
	if err == nil {
		vAssert("readpath2_stays_in_root", vWithin("/r", p))
	}
}

// Folder-upload item headers read from the transfer connection: the path built from their segments, joined under
// the upload folder exactly as UploadFolderHandler does, stays inside that folder.
// Longer item segments over the bytes the path code distinguishes ('.', '/') plus one ordinary byte: a separator
// inside one segment ("/..", "../a", "a/../..") must not lead out of the upload folder either. Each string is its own
// concrete case (363 strings of length <= 5, two segments of length <= 3).
func VH_C07_FolderUploadItemPathSeparatorAlphabet() {
	vUnroll(200)
	seg := vBytesEach("segment", 5)
	for i, b := range seg {
		vAssume(b == '.' || b == '/' || b == 'a')
		seg[i] = byte(vConcrete(int(b)))
	}
	data := append([]byte{0, 0, byte(len(seg))}, seg...)
	nseg := 1
	if len(seg) <= 3 && vBool("second_segment") {
		seg2 := vBytesEach("segment2", 3)
		for i, b := range seg2 {
			vAssume(b == '.' || b == '/' || b == 'a')
			seg2[i] = byte(vConcrete(int(b)))
		}
		data = append(data, 0, 0, byte(len(seg2)))
		data = append(data, seg2...)
		nseg = 2
	}
	fu := folderUpload{PathItemCount: [2]byte{0, byte(nseg)}, FileNamePath: data}
	p := filepath.Join("/r/up", fu.FormattedPath())
	vAssert("folder_item_with_separators_stays_in_upload_folder", vWithin("/r/up", p))
}

func VH_C07_FolderUploadItemPath() {
	vUnroll(200)
	nseg := 1 + vChoice("extra_segment", 2)
	var data []byte
	for i := 0; i < nseg; i++ {
		seg := vBytesEach("segment", 2)
		data = append(data, 0, 0, byte(len(seg)))
		data = append(data, seg...)
	}
	fu := folderUpload{PathItemCount: [2]byte{0, byte(nseg)}, FileNamePath: data}
	p := filepath.Join("/r/up", fu.FormattedPath())
	vAssert("folder_item_stays_in_upload_folder", vWithin("/r/up", p))
	vObserveString("path", p)
}
