package hotline

import "time"

func c04Run1(banned bool, permanent bool) *c04Run {
	r := &c04Run{}
	srv, _ := NewServer()
	r.srv = srv
	srv.Logger = vLogger()
	vStartOutbox(srv)
	// an account table with at most one account whose login and password are arbitrary short byte strings
	r.acct = &vAcctStub{exists: vBool("account_exists")}
	accLogin := string(vBytesEach("acct.login", 2))
	if vBool("the_account_is_guest") {
		// the login an empty login field stands for; it may well have a password set
		accLogin = "guest"
	}
	accPw := vBytesEach("acct.pw", 2)
	r.acctPw = accPw
	r.acct.account = Account{Login: accLogin, Name: "n", Password: HashAndSalt(accPw)}
	copy(r.acct.account.Access[:], vBytesN("acct.access", 8))
	srv.AccountManager = r.acct
	r.ban = &vBanStub{banned: banned}
	if banned && !permanent {
		t := time.Now()
		r.ban.until = &t
	}
	srv.BanList = r.ban
	srv.Agreement = &vSeeker{text: []byte("agreement")}
	// another, already logged-in client
	r.otherConn = &vRecConn{}
	r.other = &ClientConn{Connection: r.otherConn, Server: srv, Account: &Account{Login: "o"}, UserName: []byte("o")}
	if mgr, ok := srv.ClientMgr.(*MemClientMgr); ok && vBool("other_client_holds_id_zero") {
		// the 65536th connection since start-up holds wire ID 0 - the value an unauthenticated connection's ID field has
		mgr.nextClientID.Store(65535)
	}
	srv.ClientMgr.Add(r.other)
	// a handler for the request the peer appends after its login attempt
	srv.HandleFunc(TranGetUserNameList, func(cc *ClientConn, t *Transaction) []Transaction {
		r.dispatched++
		return []Transaction{cc.NewReply(t)}
	})
	r.hs = vBytesN("handshake", 12)
	r.loginField = vBytesEach("login", 2) // obfuscated on the wire
	r.pwField = vBytesEach("password", 2)
	copy(r.loginID[:], vBytesN("login.id", 4))
	login := Transaction{Type: TranLogin, ID: r.loginID}
	var lf [][]byte
	lf = append(lf, refField(FieldUserLogin[0], FieldUserLogin[1], r.loginField))
	lf = append(lf, refField(FieldUserPassword[0], FieldUserPassword[1], r.pwField))
	next := Transaction{Type: TranGetUserNameList, ID: [4]byte{0, 0, 0, 7}}
	stream := append([]byte(nil), r.hs...)
	stream = append(stream, refTransaction(&login, lf)...)
	stream = append(stream, refTransaction(&next, nil)...)
	r.conn = &vRW{r: &vChunkReader{data: stream, whole: true}}
	r.err = srv.handleNewConnection(nil, r.conn, "10.1.2.3:4000")
	r.outbox = vDrainOutbox(srv)
	return r
}

// Not banned: served exactly when handshake valid and credentials match; otherwise nothing is executed, nothing
// reaches other users, and the peer sees at most the handshake reply plus one error reply carrying the login's ID.
func VH_C04_LoginGate() {
	r := c04Run1(false, false)
	ok := r.handshakeValid() && r.credentialsOK()
	if ok {
		vAssert("valid_login_is_served", r.dispatched == 1)
		vAssert("valid_login_gets_handshake_reply_first", len(r.conn.out) >= 8)
		vAssertEqBytes("valid_login_handshake_reply", r.conn.out[:8], c04HandshakeReply)
		// the privileges announced to the client are the account's bitmap, unchanged (C16: same bit on the wire)
		access := 0
		for _, t := range r.outbox {
			if t.Type == TranUserAccess {
				access++
				vAssert("access_notice_to_the_new_client", t.ClientID != r.other.ID)
				vAssertEqBytes("announced_access_is_the_account_bitmap", t.Fields[0].Data, r.acct.account.Access[:])
			}
		}
		vAssert("access_announced_once", access == 1)
		// the login is answered exactly once, with the login transaction's ID
		replies := 0
		for _, t := range r.outbox {
			if t.IsReply == 1 && t.ID == r.loginID {
				replies++
			}
		}
		vAssert("login_answered_once", replies >= 1)
		return
	}
	vAssert("unauthenticated_request_not_executed", r.dispatched == 0)
	vAssert("unauthenticated_no_account_mutation", r.acct.mutated == 0 && r.ban.added == 0)
	vAssert("unauthenticated_nothing_reaches_other_users", r.sentToOthers() == 0)
	vAssert("unauthenticated_nothing_queued_at_all", len(r.outbox) == 0)
	if !r.handshakeValid() {
		vAssert("bad_handshake_no_reply", len(r.conn.out) == 0)
		vAssert("bad_handshake_no_account_lookup", len(r.acct.getCalls) == 0)
		return
	}
	// valid handshake, bad credentials: handshake reply + exactly one error reply with the login transaction's ID
	login := Transaction{Type: TranLogin, ID: r.loginID}
	_ = login
	vAssert("failed_login_reply_present", len(r.conn.out) > 8+22)
	vAssertEqBytes("failed_login_handshake_reply", r.conn.out[:8], c04HandshakeReply)
	rep := r.conn.out[8:]
	vAssert("failed_login_reply_is_reply", rep[1] == 1)
	vAssertEqBytes("failed_login_reply_id", rep[4:8], r.loginID[:])
	vAssert("failed_login_reply_error_code", rep[8] == 0 && rep[9] == 0 && rep[10] == 0 && rep[11] == 1)
	total := int(rep[12])<<24 | int(rep[13])<<16 | int(rep[14])<<8 | int(rep[15])
	vAssert("failed_login_exactly_one_reply", len(rep) == 20+total)
}

// Registry is left as the well-behaved clients alone account for.
func VH_C04_RegistryRestored() {
	r := c04Run1(false, false)
	l := r.srv.ClientMgr.List()
	vAssert("registry_only_other_client", len(l) == 1 && l[0] == r.other)
}

// c04Login runs one connection (handshake, login with the given password bytes, one request) and reports whether
// the request was executed.
func c04Login(srv *Server, pw []byte, served *int) bool {
	before := *served
	login := Transaction{Type: TranLogin, ID: [4]byte{0, 0, 0, 1}}
	next := Transaction{Type: TranGetUserNameList, ID: [4]byte{0, 0, 0, 7}}
	stream := []byte{'T', 'R', 'T', 'P', 'H', 'O', 'T', 'L', 0, 1, 0, 2}
	stream = append(stream, refTransaction(&login, [][]byte{refField(FieldUserLogin[0], FieldUserLogin[1], []byte{0x9d, 0x90, 0x9d}), refField(FieldUserPassword[0], FieldUserPassword[1], pw)})...)
	stream = append(stream, refTransaction(&next, nil)...)
	srv.handleNewConnection(nil, &vRW{r: &vChunkReader{data: stream, whole: true}}, "10.1.2.3:4000")
	vDrainOutbox(srv)
	return *served > before
}

// "That account's current password": after a password change the old password no longer logs in and the new one
// does, on later connections to the same server.
func VH_C04_CurrentPasswordOnly() {
	srv, _ := NewServer()
	srv.Logger = vLogger()
	vStartOutbox(srv)
	oldPw := vBytesEach("old_pw", 2)
	newPw := vBytesEach("new_pw", 2)
	vAssume(string(oldPw) != string(newPw))
	acct := &vAcctStub{exists: true, account: Account{Login: "bob", Name: "b", Password: HashAndSalt(oldPw)}}
	srv.AccountManager = acct
	srv.BanList = &vBanStub{}
	srv.Agreement = &vSeeker{text: []byte("agreement")}
	served := 0
	srv.HandleFunc(TranGetUserNameList, func(cc *ClientConn, t *Transaction) []Transaction {
		served++
		return []Transaction{cc.NewReply(t)}
	})
	vAssert("old_password_logs_in_before_the_change", c04Login(srv, oldPw, &served))
	acct.account.Password = HashAndSalt(newPw) // an administrator changes the password
	vAssert("old_password_refused_after_the_change", !c04Login(srv, oldPw, &served))
	vAssert("new_password_logs_in_after_the_change", c04Login(srv, newPw, &served))
}
