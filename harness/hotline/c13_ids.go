package hotline

// Inductive step for ID uniqueness: arbitrary counter value, one arbitrary live user (any live set contains the
// colliding ID iff this holds for one arbitrary member), one real Add.
func VH_C13_AddNeverReusesLiveID() {
	cm := NewMemClientMgr()
	cm.nextClientID.Store(vU32("counter"))
	live := &ClientConn{}
	live.ID = [2]byte{vU8("live0"), vU8("live1")}
	cm.clients[live.ID] = live
	// a second arbitrary live user (covers adjacent IDs held across a counter wrap)
	live2 := &ClientConn{}
	live2.ID = [2]byte{vU8("live2_0"), vU8("live2_1")}
	vAssume(live2.ID != live.ID)
	cm.clients[live2.ID] = live2
	cc := &ClientConn{}
	cm.Add(cc)
	vObserveBytes("newid", cc.ID[:])
	vAssert("new_id_not_live", cc.ID != live.ID && cc.ID != live2.ID)
	vAssert("second_live_user_still_registered", cm.Get(live2.ID) == live2)
	vAssert("live_user_still_registered", cm.Get(live.ID) == live)
	vAssert("new_user_registered", cm.Get(cc.ID) == cc)
}

// From a fresh manager the first IDs are distinct and List is sorted by ID.
func VH_C13_FreshIDsDistinctSorted() {
	cm := NewMemClientMgr()
	a, b, c := &ClientConn{}, &ClientConn{}, &ClientConn{}
	cm.Add(a)
	cm.Add(b)
	cm.Add(c)
	vAssert("distinct", a.ID != b.ID && b.ID != c.ID && a.ID != c.ID)
	cm.Delete(b.ID)
	l := cm.List()
	vAssert("list_len", len(l) == 2)
	vAssert("list_sorted", l[0] == a && l[1] == c)
	vAssert("deleted_gone", cm.Get(b.ID) == nil)
}

// The user list handed to a handler is a snapshot: later registry changes and later List calls do not alter it
// (a handler walking its recipient list while other users connect/disconnect still reaches each user once).
func VH_C13_ListIsSnapshot() {
	cm := NewMemClientMgr()
	a, b, c := &ClientConn{}, &ClientConn{}, &ClientConn{}
	cm.Add(a)
	cm.Add(b)
	cm.Add(c)
	l1 := cm.List()
	vAssert("first_list", len(l1) == 3 && l1[0] == a && l1[1] == b && l1[2] == c)
	cm.Delete(b.ID)
	l2 := cm.List()
	vAssert("second_list", len(l2) == 2 && l2[0] == a && l2[1] == c)
	vAssert("first_list_unchanged_by_later_calls", len(l1) == 3 && l1[0] == a && l1[1] == b && l1[2] == c)
	d := &ClientConn{}
	cm.Add(d)
	l3 := cm.List()
	vAssert("third_list", len(l3) == 3 && l3[2] == d)
	vAssert("second_list_unchanged_by_later_calls", len(l2) == 2 && l2[0] == a && l2[1] == c)
}

// A departing user is announced to every other user whatever its display name is (including none yet).
func VH_C13_DepartureAlwaysAnnounced() {
	srv, _ := NewServer()
	srv.Logger = vLogger()
	vStartOutbox(srv)
	mk := func(name []byte) (*ClientConn, *vRecConn) {
		c := &vRecConn{}
		cc := &ClientConn{Connection: c, Server: srv, Account: &Account{}, UserName: name}
		srv.ClientMgr.Add(cc)
		return cc, c
	}
	a, _ := mk([]byte("a"))
	target, _ := mk(vBytesEach("name", 2))
	target.Disconnect()
	out := vDrainOutbox(srv)
	vAssert("departure_announced_once", len(out) == 1 && out[0].ClientID == a.ID && out[0].Type == TranNotifyDeleteUser)
	vAssert("departed_not_listed", len(srv.ClientMgr.List()) == 1)
}

// A private message, invitation or notice addressed to the ID a user holds reaches that user whatever the ID is -
// 0 and 0xFFFF are IDs like any other once the counter has wrapped.
func VH_C13_MessageReachesTheHolderOfAnyID() { cDeliverToHeldID() }
