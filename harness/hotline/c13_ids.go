package hotline

// Inductive step for ID uniqueness: arbitrary counter value, one arbitrary live user (any live set contains the
// colliding ID iff this holds for one arbitrary member), one real Add.
func VH_C13_AddNeverReusesLiveID() {
	cm := NewMemClientMgr()
	cm.nextClientID.Store(vU32("counter"))
	live := &ClientConn{}
	live.ID = [2]byte{vU8("live0"), vU8("live1")}
	cm.clients[live.ID] = live
	cc := &ClientConn{}
	cm.Add(cc)
	vObserveBytes("newid", cc.ID[:])
	vAssert("new_id_not_live", cc.ID != live.ID)
	vAssert("live_user_still_registered", cm.Get(live.ID) == live)
	vAssert("new_user_registered", cm.Get(cc.ID) == cc)
}

// From a fresh manager the first IDs are distinct and List is sorted by ID.
func VH_C13_FreshIDsDistinctSorted() {
	cm := NewMemClientMgr()
	a, b, c := &ClientConn{}, &ClientConn{}, &ClientConn{}
	cm.Add(a)
	cm.Add(b)
	cm.Add(c)
	vAssert("distinct", a.ID != b.ID && b.ID != c.ID && a.ID != c.ID)
	cm.Delete(b.ID)
	l := cm.List()
	vAssert("list_len", len(l) == 2)
	vAssert("list_sorted", l[0] == a && l[1] == c)
	vAssert("deleted_gone", cm.Get(b.ID) == nil)
}
