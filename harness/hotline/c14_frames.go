package hotline

import "time"

// One transaction = one Write on the client's connection, whatever its size (so concurrent senders cannot
// interleave bytes of two transactions), and the bytes written are exactly the frame.
func VH_C14_OneWritePerTransaction() {
	srv, _ := NewServer()
	conn := &vRecConn{}
	cc := &ClientConn{Connection: conn, Server: srv}
	srv.ClientMgr.Add(cc)
	f0, f1 := vU8("ft0"), vU8("ft1")
	data := vBytes("data", 65535)
	t := NewTransaction(TranChatMsg, cc.ID, NewField([2]byte{f0, f1}, data))
	ref := refTransaction(&t, [][]byte{refField(f0, f1, data)})
	err := srv.sendTransaction(t)
	vAssert("send_ok", err == nil)
	vAssert("one_write_per_transaction", len(conn.writes) == 1)
	total := 0
	for _, w := range conn.writes {
		total += len(w)
	}
	vAssert("all_bytes_written", total == len(ref))
	if len(conn.writes) == 1 {
		vAssertEqBytes("frame_bytes", conn.writes[0], ref)
	}
	vObserveInt("writes", len(conn.writes))
}

// A transaction addressed to an ID nobody holds is dropped, not written to somebody else.
func VH_C14_UnknownRecipientDropped() {
	srv, _ := NewServer()
	conn := &vRecConn{}
	cc := &ClientConn{Connection: conn, Server: srv}
	srv.ClientMgr.Add(cc)
	to := ClientID{vU8("to0"), vU8("to1")}
	t := NewTransaction(TranChatMsg, to, NewField(FieldData, []byte("x")))
	err := srv.sendTransaction(t)
	vAssert("send_ok", err == nil)
	if to != cc.ID {
		vAssert("not_misdirected", len(conn.writes) == 0)
	} else {
		vAssert("delivered", len(conn.writes) == 1)
	}
}

// Field length prefix equals the content length, for content within the 16-bit prefix ...
func VH_C14_FieldPrefixWithinLimit() {
	data := vBytes("data", 65535)
	f := NewField(FieldData, data)
	vAssert("field_prefix_matches", int(f.FieldSize[0])<<8|int(f.FieldSize[1]) == len(f.Data))
	vAssertEqBytes("field_content", f.Data, data)
}

// ... and for content handlers may pass that is longer than the prefix can express (message board, agreement).
func VH_C14_FieldPrefixOversize() {
	n := vInt("len")
	vAssume(65536 <= n && n <= 200000)
	data := vBytesN("data", n)
	f := NewField(FieldData, data)
	vAssert("oversize_field_prefix_matches", int(f.FieldSize[0])<<8|int(f.FieldSize[1]) == len(f.Data))
}

// Replies carry the reply flag, the request's ID and the requester's address; error replies likewise.
func VH_C14_ReplyCorrelation() {
	srv, _ := NewServer()
	cc := &ClientConn{Connection: &vRecConn{}, Server: srv}
	srv.ClientMgr.Add(cc)
	req := &Transaction{Type: TranType{vU8("ty0"), vU8("ty1")}}
	copy(req.ID[:], vBytesN("id", 4))
	r := cc.NewReply(req, NewField(FieldData, []byte("ok")))
	vAssert("reply_flag", r.IsReply == 1)
	vAssert("reply_id", r.ID == req.ID)
	vAssert("reply_to_requester", r.ClientID == cc.ID)
	vAssert("reply_no_error", r.ErrorCode == [4]byte{})
	er := cc.NewErrReply(req, "nope")
	vAssert("err_single", len(er) == 1)
	vAssert("err_flag", er[0].IsReply == 1 && er[0].ID == req.ID && er[0].ClientID == cc.ID)
	vAssert("err_code", er[0].ErrorCode == [4]byte{0, 0, 0, 1})
	nt := NewTransaction(TranChatMsg, cc.ID)
	vAssert("request_flag_clear", nt.IsReply == 0)
}

// The same at concrete frame sizes around the buffer sizes a sender might use (4 KiB, 32 KiB) and at the limit.
func VH_C14_OneWriteAtBoundarySizes() {
	srv, _ := NewServer()
	conn := &vRecConn{}
	cc := &ClientConn{Connection: conn, Server: srv}
	srv.ClientMgr.Add(cc)
	lens := []int{0, 1, 4069, 4070, 4071, 32741, 32742, 32743, 65535}
	data := vBytesN("data", lens[vChoice("data_len", 9)])
	t := NewTransaction(TranChatMsg, cc.ID, NewField(FieldData, data))
	ref := refTransaction(&t, [][]byte{refField(FieldData[0], FieldData[1], data)})
	err := srv.sendTransaction(t)
	vAssert("send_ok", err == nil)
	vAssert("one_write_per_transaction_at_boundary", len(conn.writes) == 1)
	if len(conn.writes) == 1 {
		vAssertEqBytes("frame_bytes_at_boundary", conn.writes[0], ref)
	}
}

type vFailConn struct{ vRecConn }

func (c *vFailConn) Write(p []byte) (int, error) { return 0, vErr{} }

// A failed write to one client leaves nothing behind for the next transaction: what another client then receives
// is exactly its own frame.
func VH_C14_FailedWriteDoesNotLeakIntoNextFrame() {
	srv, _ := NewServer()
	bad := &ClientConn{Connection: &vFailConn{}, Server: srv}
	good := &vRecConn{}
	cc := &ClientConn{Connection: good, Server: srv}
	srv.ClientMgr.Add(bad)
	srv.ClientMgr.Add(cc)
	d1 := vBytesEach("data_for_failing_client", 3)
	d2 := vBytesEach("data_for_other_client", 3)
	t1 := NewTransaction(TranChatMsg, bad.ID, NewField(FieldData, d1))
	err := srv.sendTransaction(t1)
	vAssert("failed_write_reported", err != nil)
	t2 := NewTransaction(TranServerMsg, cc.ID, NewField(FieldData, d2))
	ref := refTransaction(&t2, [][]byte{refField(FieldData[0], FieldData[1], d2)})
	err = srv.sendTransaction(t2)
	vAssert("second_send_ok", err == nil)
	vAssert("one_write", len(good.writes) == 1)
	if len(good.writes) == 1 {
		vAssertEqBytes("next_frame_is_exactly_its_own_bytes", good.writes[0], ref)
	}
}

// vDeadlineConn is a TCP-like connection to a client that has stopped reading. A write normally waits (here: goes
// through whole); once a write deadline has been set, the write in progress gives up after part of the frame was
// accepted and reports a timeout, and the connection stays usable - which is what a deadline does on a real socket.
type vDeadlineConn struct {
	got         []byte
	deadlineSet bool
	cut         int
	timedOut    bool
	lenAtTear   int
	closed      bool
}

func (c *vDeadlineConn) Read(p []byte) (int, error) { return 0, vErr{} }
func (c *vDeadlineConn) Close() error               { c.closed = true; return nil }
func (c *vDeadlineConn) SetWriteDeadline(t time.Time) error {
	c.deadlineSet = true
	return nil
}
func (c *vDeadlineConn) SetDeadline(t time.Time) error { return c.SetWriteDeadline(t) }
func (c *vDeadlineConn) Write(p []byte) (int, error) {
	if c.closed {
		return 0, vErr{}
	}
	if c.deadlineSet && !c.timedOut && c.cut < len(p) {
		c.timedOut = true
		c.got = append(c.got, p[:c.cut]...)
		c.lenAtTear = len(c.got)
		return c.cut, vErr{}
	}
	c.got = append(c.got, p...)
	return len(p), nil
}

// Whatever reaches a client is a sequence of whole transactions: if a write to a slow client is given up part-way
// (possible only when the sender arms a write deadline), nothing further may be appended to that connection's stream
// behind the torn frame - the client could never find the next frame boundary.
func VH_C14_NoFrameAppendedBehindATornOne_sym() {
	srv, _ := NewServer()
	conn := &vDeadlineConn{cut: int(vU8("bytes_accepted_before_the_timeout"))}
	cc := &ClientConn{Connection: conn, Server: srv}
	srv.ClientMgr.Add(cc)
	d1 := vBytesEach("data_first", 3)
	d2 := vBytesEach("data_second", 3)
	t1 := NewTransaction(TranChatMsg, cc.ID, NewField(FieldData, d1))
	t2 := NewTransaction(TranServerMsg, cc.ID, NewField(FieldData, d2))
	ref1 := refTransaction(&t1, [][]byte{refField(FieldData[0], FieldData[1], d1)})
	ref2 := refTransaction(&t2, [][]byte{refField(FieldData[0], FieldData[1], d2)})
	srv.sendTransaction(t1)
	srv.sendTransaction(t2)
	if conn.timedOut {
		vAssert("nothing_follows_a_torn_frame", len(conn.got) == conn.lenAtTear)
	} else {
		vAssertEqBytes("whole_frames_in_order", conn.got, append(append([]byte(nil), ref1...), ref2...))
	}
}

// Whatever 16-bit ID a connected client was given - 0 and 0xFFFF included, the counter wraps after 65535 connections -
// a transaction addressed to it is delivered to it, once, as its frame.
func VH_C14_EveryHeldIDIsDeliverable() { cDeliverToHeldID() }

// A connection whose first Write is held up: while it waits, another sender's transaction for the same client is
// serialised and written in full; only then does the first Write take its bytes (a blocked socket write copies
// its argument when the socket drains, not when the call is made).
type vSlowConn struct {
	srv    *Server
	second *Transaction
	writes [][]byte
}

func (c *vSlowConn) Read(p []byte) (int, error) { return 0, vErr{} }
func (c *vSlowConn) Close() error               { return nil }
func (c *vSlowConn) Write(p []byte) (int, error) {
	if c.second != nil {
		t := *c.second
		c.second = nil
		c.srv.sendTransaction(t) // the other sender runs to completion while this Write is held up
	}
	c.writes = append(c.writes, append([]byte(nil), p...))
	return len(p), nil
}

// Two senders, one recipient, the first write slow: the client still receives two whole frames, one per
// transaction - a frame handed to Write is not changed by what another sender serialises meanwhile.
func VH_C14_SlowWriteKeepsFramesApart() {
	srv, _ := NewServer()
	conn := &vSlowConn{srv: srv}
	cc := &ClientConn{Connection: conn, Server: srv}
	srv.ClientMgr.Add(cc)
	d1 := vBytesEach("first.data", 3)
	d2 := vBytesEach("second.data", 3)
	t1 := NewTransaction(TranChatMsg, cc.ID, NewField(FieldData, d1))
	t1.ID = [4]byte{0, 0, 0, 1}
	t2 := NewTransaction(TranServerMsg, cc.ID, NewField(FieldData, d2))
	t2.ID = [4]byte{0, 0, 0, 2}
	ref1 := refTransaction(&t1, [][]byte{refField(FieldData[0], FieldData[1], d1)})
	ref2 := refTransaction(&t2, [][]byte{refField(FieldData[0], FieldData[1], d2)})
	conn.second = &t2
	err := srv.sendTransaction(t1)
	vAssert("slow_send_ok", err == nil)
	vAssert("two_writes_for_two_transactions", len(conn.writes) == 2)
	if len(conn.writes) == 2 {
		// the overtaking transaction arrives first, whole; the held-up one arrives after it, whole and unchanged
		vAssertEqBytes("overtaking_frame_whole", conn.writes[0], ref2)
		vAssertEqBytes("held_up_frame_unchanged", conn.writes[1], ref1)
	}
}
