package hotline

// The article list entry of an article whose title and poster are as long as their one-byte prefixes allow is
// emitted whole (entries longer than a first read buffer are not cut) and parses back.
func VH_C18_ListEntryLongFields() {
	title := vString("title", 255)
	poster := vString("poster", 255)
	id := vU32("id")
	cat := &NewsCategoryListData15{Type: NewsCategory, Name: "c", Articles: map[uint32]*NewsArtData{}}
	art := &NewsArtData{Title: title, Poster: poster, Data: "body"}
	copy(art.Date[:], vBytesN("date", 8))
	copy(art.ParentArt[:], vBytesN("parent", 4))
	cat.Articles[id] = art
	d := cat.GetNewsArtListData()
	vAssert("count_one", d.Count == 1)
	var ref []byte
	ref = append(ref, byte(id>>24), byte(id>>16), byte(id>>8), byte(id))
	ref = append(ref, art.Date[:]...)
	ref = append(ref, art.ParentArt[:]...)
	ref = append(ref, 0, 0, 0, 0, 0, 1)
	ref = append(ref, byte(len(title)))
	ref = append(ref, title...)
	ref = append(ref, byte(len(poster)))
	ref = append(ref, poster...)
	ref = append(ref, 10)
	ref = append(ref, "text/plain"...)
	ref = append(ref, 0, 4)
	vAssertEqBytes("list_entry_is_whole_reference_entry", d.NewsArtList, ref)
}
