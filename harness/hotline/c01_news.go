package hotline

// ---- news article list entry: id(4) date(8) parent(4) flags(4) flavours(2)=1 {len(1) text}x2 len(1)"text/plain" size(2)

func c01NewsArt(maxTitle int) (*NewsArtList, []byte) {
	a := &NewsArtList{Title: vBytes("title", maxTitle), Poster: vBytes("poster", 255)}
	copy(a.ID[:], vBytesN("id", 4))
	copy(a.TimeStamp[:], vBytesN("ts", 8))
	copy(a.ParentID[:], vBytesN("parent", 4))
	copy(a.Flags[:], vBytesN("flags", 4))
	copy(a.ArticleSize[:], vBytesN("size", 2))
	var ref []byte
	ref = append(ref, a.ID[:]...)
	ref = append(ref, a.TimeStamp[:]...)
	ref = append(ref, a.ParentID[:]...)
	ref = append(ref, a.Flags[:]...)
	ref = append(ref, 0, 1)
	ref = append(ref, byte(len(a.Title)))
	ref = append(ref, a.Title...)
	ref = append(ref, byte(len(a.Poster)))
	ref = append(ref, a.Poster...)
	ref = append(ref, 10)
	ref = append(ref, "text/plain"...)
	ref = append(ref, a.ArticleSize[:]...)
	return a, ref
}
func c01NewsArtEnc(a *NewsArtList) vEnc {
	return vEnc{a.Read, func(o int) { a.readOffset = o }, func() int { return a.readOffset }}
}
func VH_C01_NewsArtListLayout() { a, ref := c01NewsArt(255); c01Layout(c01NewsArtEnc(a), ref, 2000) }
func VH_C01_NewsArtListDrain()  { a, ref := c01NewsArt(255); c01DrainStep(c01NewsArtEnc(a), ref, 2000) }

// ---- news article list header: id(4) count(4) {len(1) text}x2 + entries ------------------------------------

func c01NewsArtListData() (*NewsArtListData, []byte) {
	d := &NewsArtListData{Name: vBytes("name", 255), Description: vBytesEach("desc", 2), NewsArtList: vBytes("list", 1000), Count: int(vU32("count"))}
	copy(d.ID[:], vBytesN("id", 4))
	var ref []byte
	ref = append(ref, d.ID[:]...)
	ref = append(ref, refU32(d.Count)...)
	ref = append(ref, byte(len(d.Name)))
	ref = append(ref, d.Name...)
	ref = append(ref, byte(len(d.Description)))
	ref = append(ref, d.Description...)
	ref = append(ref, d.NewsArtList...)
	return d, ref
}
func c01NewsArtListDataEnc(d *NewsArtListData) vEnc {
	return vEnc{d.Read, func(o int) { d.readOffset = o }, func() int { return d.readOffset }}
}
func VH_C01_NewsArtListDataLayout() {
	d, ref := c01NewsArtListData()
	c01Layout(c01NewsArtListDataEnc(d), ref, 4000)
}
func VH_C01_NewsArtListDataDrain() {
	d, ref := c01NewsArtListData()
	c01DrainStep(c01NewsArtListDataEnc(d), ref, 4000)
}

// ---- category record: type(2) count(2) [guid(16) addSN(4) delSN(4) iff category] len(1) name ------------------

func c01NewsCat() (*NewsCategoryListData15, []byte) {
	c := &NewsCategoryListData15{Name: vString("name", 255)}
	isCat := vBool("is_category")
	if isCat {
		c.Type = NewsCategory
	} else {
		c.Type = NewsBundle
	}
	copy(c.GUID[:], vBytesN("guid", 16))
	copy(c.AddSN[:], vBytesN("addsn", 4))
	copy(c.DeleteSN[:], vBytesN("delsn", 4))
	nchild := vChoice("children", 3)
	if isCat {
		c.Articles = map[uint32]*NewsArtData{}
		for i := 0; i < nchild; i++ {
			c.Articles[uint32(i+1)] = &NewsArtData{}
		}
	} else {
		c.SubCats = map[string]NewsCategoryListData15{}
		for i := 0; i < nchild; i++ {
			c.SubCats[string(rune('a'+i))] = NewsCategoryListData15{}
		}
	}
	ref := []byte{c.Type[0], c.Type[1], 0, byte(nchild)}
	if isCat {
		ref = append(ref, c.GUID[:]...)
		ref = append(ref, c.AddSN[:]...)
		ref = append(ref, c.DeleteSN[:]...)
	}
	ref = append(ref, byte(len(c.Name)))
	ref = append(ref, c.Name...)
	return c, ref
}
func c01NewsCatEnc(c *NewsCategoryListData15) vEnc {
	return vEnc{c.Read, func(o int) { c.readOffset = o }, func() int { return c.readOffset }}
}
func VH_C01_NewsCategoryLayout() { c, ref := c01NewsCat(); c01Layout(c01NewsCatEnc(c), ref, 2000) }
func VH_C01_NewsCategoryDrain()  { c, ref := c01NewsCat(); c01DrainStep(c01NewsCatEnc(c), ref, 2000) }

// ---- news path field: count(2) {00 00 len(1) name}* -----------------------------------------------------------

func VH_C01_NewsPathDecode() {
	n := vChoice("items", 3)
	data := refU16(n)
	var names [][]byte
	for i := 0; i < n; i++ {
		nm := vBytesEach("name", 3)
		names = append(names, nm)
		data = append(data, 0, 0, byte(len(nm)))
		data = append(data, nm...)
	}
	f := NewField(FieldNewsPath, data)
	paths, err := f.DecodeNewsPath()
	vAssert("ok", err == nil)
	vAssert("count", len(paths) == n)
	for i := 0; i < n && i < len(paths); i++ {
		vAssertEqBytes("item", []byte(paths[i]), names[i])
	}
}
