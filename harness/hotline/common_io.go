package hotline

import "io"

// vChunkReader delivers data in arbitrary pieces: every Read returns between 1 and min(len(p), remaining) bytes.
// With whole=true it delivers as much as fits (the "all at once" delivery used as the reference run).
type vChunkReader struct {
	data   []byte
	pos    int
	whole  bool
	reads  int
	cuts   int   // >0: after this many arbitrary pieces the rest arrives as fast as the caller reads it
	each   int   // >0: every read returns at most this many bytes (a fixed piece size)
	bounds []int // a read never crosses one of these absolute stream offsets (segment boundaries placed by the harness)
	sizes  []int // non-empty: the k-th read returns at most sizes[k] bytes (one message per read), later reads whatever fits
}

func (r *vChunkReader) Read(p []byte) (int, error) {
	if r.pos >= len(r.data) {
		return 0, io.EOF
	}
	if len(p) == 0 {
		return 0, nil
	}
	max := vMin(len(p), len(r.data)-r.pos)
	n := max
	if r.reads < len(r.sizes) {
		n = vMin(max, r.sizes[r.reads])
	} else if r.each > 0 {
		n = vMin(max, r.each-r.pos%r.each)
	} else if !r.whole && (r.cuts == 0 || r.reads < r.cuts) {
		n = int(vU8("chunk"))
		vAssume(1 <= n && n <= max)
	}
	for _, b := range r.bounds {
		if b > r.pos && b < r.pos+n {
			n = b - r.pos
		}
	}
	copy(p, r.data[r.pos:r.pos+n])
	r.pos += n
	r.reads++
	return n, nil
}

type vRW struct {
	r   *vChunkReader
	out []byte
}

func (rw *vRW) Read(p []byte) (int, error)  { return rw.r.Read(p) }
func (rw *vRW) Write(p []byte) (int, error) { rw.out = append(rw.out, p...); return len(p), nil }
func (rw *vRW) Close() error                { return nil }

// vRecConn records every Write call separately (each call is atomic on a TCP connection; calls from different
// goroutines may interleave between calls).
type vRecConn struct {
	writes [][]byte
	closed int
}

func (c *vRecConn) Read(p []byte) (int, error) { return 0, vErr{} }
func (c *vRecConn) Write(p []byte) (int, error) {
	c.writes = append(c.writes, append([]byte(nil), p...))
	return len(p), nil
}
func (c *vRecConn) Close() error { c.closed++; return nil }

type vBufW struct{ b []byte }

func (w *vBufW) Write(p []byte) (int, error) { w.b = append(w.b, p...); return len(p), nil }

func c02UploadStream(name, data []byte) []byte {
	s := []byte{'F', 'I', 'L', 'P', 0, 1}
	s = append(s, make([]byte, 16)...)
	s = append(s, 0, 2)
	s = append(s, 'I', 'N', 'F', 'O', 0, 0, 0, 0, 0, 0, 0, 0)
	s = append(s, refU32(72+len(name)+2)...)
	s = append(s, 'A', 'M', 'A', 'C', 'T', 'E', 'X', 'T', 't', 't', 'x', 't')
	s = append(s, make([]byte, 8+32+16)...)
	s = append(s, 0, 0)
	s = append(s, refU16(len(name))...)
	s = append(s, name...)
	s = append(s, 0, 0)
	s = append(s, 'D', 'A', 'T', 'A', 0, 0, 0, 0, 0, 0, 0, 0)
	s = append(s, refU32(len(data))...)
	s = append(s, data...)
	return s
}

// Upload with a resource fork (fork count 3): data fork, then a 16-byte MACR header and the resource bytes.
func c02UploadStream3(name, data, rsrc []byte) []byte {
	s := c02UploadStream(name, data)
	s[23] = 3 // fork count
	s = append(s, 'M', 'A', 'C', 'R', 0, 0, 0, 0, 0, 0, 0, 0)
	s = append(s, refU32(len(rsrc))...)
	s = append(s, rsrc...)
	return s
}
