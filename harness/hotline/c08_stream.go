package hotline

// The transfer connection of a granted download carries: a flattened-file header whose length fields are
// consistent, then exactly the data fork from the resume offset to the end, then (unless resuming) the resource
// fork section - here an empty one, since no resource fork is stored.
func c08Stream(maxSize int) {
	vUnroll(300)
	data := vBytes("data", maxSize)
	st := &vStore{names: []string{"/r/docs/target.txt"}, data: [][]byte{data}}
	ft := &FileTransfer{bytesSentCounter: &WriteCounter{}}
	k := 0
	resume := vBool("resume")
	if resume {
		k = vInt("resume_offset")
		vAssume(0 <= k && k <= len(data))
		off := []byte{byte(k >> 24), byte(k >> 16), byte(k >> 8), byte(k)}
		ft.FileResumeData = NewFileResumeData([]ForkInfoList{*NewForkInfoList(off)})
	}
	preview := vBool("preview")
	if preview {
		ft.Options = []byte{0, 2}
	}
	w := &vBufW{}
	err := DownloadHandler(w, "/r/docs/target.txt", ft, st, vLogger(), true)
	vAssert("download_ok", err == nil)
	out := w.b
	hdr := 0
	if !preview {
		hdr = 24 + 16 + 72 + 10 + 2 + 16
		vAssert("stream_has_header", len(out) >= hdr)
		vAssert("header_magic", out[0] == 'F' && out[1] == 'I' && out[2] == 'L' && out[3] == 'P' && out[4] == 0 && out[5] == 1)
		vAssert("info_fork_tag", out[24] == 'I' && out[25] == 'N' && out[26] == 'F' && out[27] == 'O')
		infoSize := int(out[36])<<24 | int(out[37])<<16 | int(out[38])<<8 | int(out[39])
		vAssert("info_fork_size_is_consistent", infoSize == 72+10+2)
		nameLen := int(out[40+70])<<8 | int(out[40+71])
		vAssert("name_length_is_consistent", nameLen == 10)
		vAssertEqBytes("name_in_header", out[40+72:40+82], []byte("target.txt"))
		d0 := 40 + 84
		vAssert("data_fork_tag", out[d0] == 'D' && out[d0+1] == 'A' && out[d0+2] == 'T' && out[d0+3] == 'A')
	}
	rest := len(data) - k
	vAssert("stream_long_enough", len(out) >= hdr+rest)
	vAssertEqBytes("data_fork_from_resume_offset", out[hdr:hdr+rest], data[k:])
	tail := out[hdr+rest:]
	if resume {
		vAssert("resumed_download_ends_after_data", len(tail) == 0)
	} else {
		// an empty resource section: MACR header announcing 0 bytes, nothing after it
		vAssert("resource_section_is_header_only", len(tail) == 16)
		vAssert("resource_section_tag", tail[0] == 'M' && tail[1] == 'A' && tail[2] == 'C' && tail[3] == 'R')
		vAssert("resource_section_size_zero", tail[12] == 0 && tail[13] == 0 && tail[14] == 0 && tail[15] == 0)
	}
	vAssert("bytes_sent_counter", ft.bytesSentCounter.Total == int64(rest))
}

func VH_C08_DownloadStream_sym_quick()    { c08Stream(600) }
func VH_C08_DownloadStream_sym_thorough() { c08Stream(9000) }
