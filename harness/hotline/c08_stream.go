package hotline

import (
	"io"
	"io/fs"
	"os"
	"time"
)

// ---- a file store whose files are byte strings; *os.File handles are served by engine-only stubs -------------

type vFileData struct {
	data []byte
	pos  int
}

var vFiles = map[*os.File]*vFileData{}

func vStub_os_File_Read(f *os.File, p []byte) (int, error) {
	d := vFiles[f]
	if d == nil {
		return 0, fs.ErrInvalid
	}
	if d.pos >= len(d.data) {
		return 0, io.EOF
	}
	n := copy(p, d.data[d.pos:])
	d.pos += n
	return n, nil
}
func vStub_os_File_Close(f *os.File) error { return nil }

type vInfo struct {
	name string
	size int64
	dir  bool
}

func (i *vInfo) Name() string       { return i.name }
func (i *vInfo) Size() int64        { return i.size }
func (i *vInfo) Mode() fs.FileMode  { return 0644 }
func (i *vInfo) ModTime() time.Time { return time.Time{} }
func (i *vInfo) IsDir() bool        { return i.dir }
func (i *vInfo) Sys() any           { return nil }

type vStore struct {
	names   []string
	data    [][]byte
	renames []string
}

func (s *vStore) find(name string) int {
	for i, n := range s.names {
		if n == name {
			return i
		}
	}
	return -1
}
func (s *vStore) Stat(name string) (fs.FileInfo, error) {
	for i, n := range s.names {
		if n == name {
			return &vInfo{name: "target.txt", size: int64(len(s.data[i]))}, nil
		}
	}
	return nil, fs.ErrNotExist
}
func (s *vStore) Open(name string) (*os.File, error) {
	for i, n := range s.names {
		if n == name {
			f := new(os.File)
			vFiles[f] = &vFileData{data: s.data[i]}
			return f, nil
		}
	}
	return nil, fs.ErrNotExist
}
func (s *vStore) ReadFile(name string) ([]byte, error) {
	for i, n := range s.names {
		if n == name {
			return s.data[i], nil
		}
	}
	return nil, fs.ErrNotExist
}
func (s *vStore) Create(name string) (*os.File, error)                               { return nil, fs.ErrPermission }
func (s *vStore) Mkdir(name string, perm os.FileMode) error                          { return nil }
func (s *vStore) OpenFile(name string, flag int, perm fs.FileMode) (*os.File, error) { return nil, fs.ErrPermission }
func (s *vStore) Remove(name string) error                                           { return nil }
func (s *vStore) RemoveAll(path string) error                                        { return nil }
func (s *vStore) Rename(oldpath string, newpath string) error {
	s.renames = append(s.renames, oldpath+" -> "+newpath)
	return nil
}
func (s *vStore) Symlink(oldname, newname string) error                      { return nil }
func (s *vStore) WriteFile(name string, data []byte, perm fs.FileMode) error { return nil }

// calendar/float conversion is outside every claim
func vStub_hotline_NewTime(t time.Time) (b Time) {
	copy(b[:], vBytesN("hltime", 8))
	return b
}

// The transfer connection of a granted download carries: a flattened-file header whose length fields are
// consistent, then exactly the data fork from the resume offset to the end, then (unless resuming) the resource
// fork section - here an empty one, since no resource fork is stored.
func c08Stream(maxSize int) {
	vUnroll(300)
	data := vBytes("data", maxSize)
	st := &vStore{names: []string{"/r/docs/target.txt"}, data: [][]byte{data}}
	ft := &FileTransfer{bytesSentCounter: &WriteCounter{}}
	k := 0
	resume := vBool("resume")
	if resume {
		k = vInt("resume_offset")
		vAssume(0 <= k && k <= len(data))
		off := []byte{byte(k >> 24), byte(k >> 16), byte(k >> 8), byte(k)}
		ft.FileResumeData = NewFileResumeData([]ForkInfoList{*NewForkInfoList(off)})
	}
	preview := vBool("preview")
	if preview {
		ft.Options = []byte{0, 2}
	}
	w := &vBufW{}
	err := DownloadHandler(w, "/r/docs/target.txt", ft, st, vLogger(), true)
	vAssert("download_ok", err == nil)
	out := w.b
	hdr := 0
	if !preview {
		hdr = 24 + 16 + 72 + 10 + 2 + 16
		vAssert("stream_has_header", len(out) >= hdr)
		vAssert("header_magic", out[0] == 'F' && out[1] == 'I' && out[2] == 'L' && out[3] == 'P' && out[4] == 0 && out[5] == 1)
		vAssert("info_fork_tag", out[24] == 'I' && out[25] == 'N' && out[26] == 'F' && out[27] == 'O')
		infoSize := int(out[36])<<24 | int(out[37])<<16 | int(out[38])<<8 | int(out[39])
		vAssert("info_fork_size_is_consistent", infoSize == 72+10+2)
		nameLen := int(out[40+70])<<8 | int(out[40+71])
		vAssert("name_length_is_consistent", nameLen == 10)
		vAssertEqBytes("name_in_header", out[40+72:40+82], []byte("target.txt"))
		d0 := 40 + 84
		vAssert("data_fork_tag", out[d0] == 'D' && out[d0+1] == 'A' && out[d0+2] == 'T' && out[d0+3] == 'A')
	}
	rest := len(data) - k
	vAssert("stream_long_enough", len(out) >= hdr+rest)
	vAssertEqBytes("data_fork_from_resume_offset", out[hdr:hdr+rest], data[k:])
	tail := out[hdr+rest:]
	if resume {
		vAssert("resumed_download_ends_after_data", len(tail) == 0)
	} else {
		// an empty resource section: MACR header announcing 0 bytes, nothing after it
		vAssert("resource_section_is_header_only", len(tail) == 16)
		vAssert("resource_section_tag", tail[0] == 'M' && tail[1] == 'A' && tail[2] == 'C' && tail[3] == 'R')
		vAssert("resource_section_size_zero", tail[12] == 0 && tail[13] == 0 && tail[14] == 0 && tail[15] == 0)
	}
	vAssert("bytes_sent_counter", ft.bytesSentCounter.Total == int64(rest))
}

func VH_C08_DownloadStream_sym_quick()    { c08Stream(600) }
func VH_C08_DownloadStream_sym_thorough() { c08Stream(9000) }
