package hotline

// The transfer connection of a granted download carries: a flattened-file header whose length fields are
// consistent, then exactly the data fork from the resume offset to the end, then (unless resuming) the resource
// fork section - here an empty one, since no resource fork is stored.
func c08Stream(maxSize int, withRsrc bool) {
	vUnroll(300)
	var data []byte
	if withRsrc {
		data = vBytesN("data", maxSize) // concrete length: keeps the resource section's offset nearly concrete
	} else {
		data = vBytes("data", maxSize)
	}
	st := &vStore{names: []string{"/r/docs/target.txt"}, data: [][]byte{data}}
	hasRsrc := withRsrc
	rsrc := vBytesN("rsrc", 3)
	if hasRsrc {
		st.names = append(st.names, "/r/docs/.rsrc_target.txt")
		st.data = append(st.data, rsrc)
	} else {
		rsrc = nil
	}
	ft := &FileTransfer{bytesSentCounter: &WriteCounter{}}
	k := 0
	resume := vBool("resume")
	if resume {
		k = vInt("resume_offset")
		vAssume(0 <= k && k <= len(data))
		off := []byte{byte(k >> 24), byte(k >> 16), byte(k >> 8), byte(k)}
		ft.FileResumeData = NewFileResumeData([]ForkInfoList{*NewForkInfoList(off)})
	}
	preview := vBool("preview")
	if preview {
		ft.Options = []byte{0, 2}
	}
	w := &vBufW{}
	err := DownloadHandler(w, "/r/docs/target.txt", ft, st, vLogger(), true)
	vAssert("download_ok", err == nil)
	out := w.b
	hdr := 0
	if !preview {
		hdr = 24 + 16 + 72 + 10 + 2 + 16
		vAssert("stream_has_header", len(out) >= hdr)
		vAssert("header_magic", out[0] == 'F' && out[1] == 'I' && out[2] == 'L' && out[3] == 'P' && out[4] == 0 && out[5] == 1)
		vAssert("info_fork_tag", out[24] == 'I' && out[25] == 'N' && out[26] == 'F' && out[27] == 'O')
		infoSize := int(out[36])<<24 | int(out[37])<<16 | int(out[38])<<8 | int(out[39])
		vAssert("info_fork_size_is_consistent", infoSize == 72+10+2)
		nameLen := int(out[40+70])<<8 | int(out[40+71])
		vAssert("name_length_is_consistent", nameLen == 10)
		vAssertEqBytes("name_in_header", out[40+72:40+82], []byte("target.txt"))
		d0 := 40 + 84
		vAssert("data_fork_tag", out[d0] == 'D' && out[d0+1] == 'A' && out[d0+2] == 'T' && out[d0+3] == 'A')
	}
	rest := len(data) - k
	vAssert("stream_long_enough", len(out) >= hdr+rest)
	vAssertEqBytes("data_fork_from_resume_offset", out[hdr:hdr+rest], data[k:])
	tail := out[hdr+rest:]
	if resume {
		// a resumed download carries no resource fork header; the stored resource bytes still follow the data
		vAssertEqBytes("resumed_download_then_resource_bytes", tail, rsrc)
	} else {
		// resource section: MACR header announcing the stored size, then exactly those bytes (empty when none stored)
		vAssert("resource_section_header_present", len(tail) >= 16)
		vAssert("resource_section_tag", tail[0] == 'M' && tail[1] == 'A' && tail[2] == 'C' && tail[3] == 'R')
		rs := int(tail[12])<<24 | int(tail[13])<<16 | int(tail[14])<<8 | int(tail[15])
		vAssert("resource_section_size_is_stored_size", rs == len(rsrc))
		vAssertEqBytes("resource_fork_bytes", tail[16:], rsrc)
	}
	vAssert("bytes_sent_counter", ft.bytesSentCounter.Total == int64(rest+len(rsrc)))
}

func VH_C08_DownloadStream_sym_quick()           { c08Stream(600, false) }
func VH_C08_DownloadStream_sym_thorough()        { c08Stream(9000, false) }
func VH_C08_DownloadStreamWithResourceFork_sym() { c08Stream(5, true) }

// The transfer size the request handler announces (header + data for a file without resource fork) is the number of
// bytes the transfer connection then carries before the resource section - also for a name with a non-ASCII
// character (which has different lengths on disk and on the wire).
func VH_C08_AnnouncedSizeIsWhatIsSent_sym() {
	vUnroll(300)
	names := []string{"/r/docs/target.txt", "/r/docs/caf\xc3\xa9.txt"}
	path := names[vChoice("name", 2)]
	data := vBytesN("data", 5)
	st := &vStore{names: []string{path}, data: [][]byte{data}}
	fw, err := NewFileWrapper(st, path, 0)
	vAssert("wrapper_ok", err == nil)
	ts := fw.Ffo.TransferSize(0)
	announced := int(ts[0])<<24 | int(ts[1])<<16 | int(ts[2])<<8 | int(ts[3])
	w := &vBufW{}
	ft := &FileTransfer{bytesSentCounter: &WriteCounter{}}
	err = DownloadHandler(w, path, ft, st, vLogger(), true)
	vAssert("download_ok", err == nil)
	vAssert("announced_transfer_size_is_what_is_sent", len(w.b)-16 == announced)
}

// History over the transfer registry: A and B are registered, A is fetched (and removed), C is registered. B's
// reference still names B's transfer and C's reference names C's - a reference is never handed out again while the
// transfer it was given for is pending. (Random references are assumed not to repeat: vDistinctRandom.)
func VH_C08_PendingTransferKeepsItsReference_sym() {
	vDistinctRandom()
	srv, _ := NewServer()
	cc := &ClientConn{Server: srv, ClientFileTransferMgr: NewClientFileTransferMgr()}
	a := cc.NewFileTransfer(FileDownload, "/r", []byte("a.txt"), nil, []byte{0, 0, 0, 1})
	b := cc.NewFileTransfer(FileDownload, "/r", []byte("b.txt"), nil, []byte{0, 0, 0, 2})
	bRef := b.RefNum
	vAssert("two_pending_transfers_two_references", a.RefNum != b.RefNum)
	srv.FileTransferMgr.Delete(a.RefNum)
	c := cc.NewFileTransfer(FileDownload, "/r", []byte("c.txt"), nil, []byte{0, 0, 0, 3})
	vAssert("new_reference_is_not_a_pending_one", c.RefNum != bRef)
	gb, gc := srv.FileTransferMgr.Get(bRef), srv.FileTransferMgr.Get(c.RefNum)
	vAssert("pending_transfer_still_found_under_its_reference", gb == b && string(gb.FileName) == "b.txt")
	vAssert("new_transfer_found_under_its_reference", gc == c && string(gc.FileName) == "c.txt")
}

// The longest legal file names (250..255 bytes): the side files ".rsrc_<name>" / ".info_<name>" of such a file cannot
// even be named on disk (name too long), which is just another way of not existing - the download is still granted
// sizes that the transfer connection then carries in full.
func VH_C08_LongestFileNamesStillStream_sym() {
	vUnroll(400)
	n := vInt("name_length")
	vAssume(n >= 249 && n <= 255)
	n = vConcrete(n)
	nm := make([]byte, n)
	for i := range nm {
		nm[i] = 'a' + byte(i%26)
	}
	path := "/r/docs/" + string(nm)
	data := vBytesN("data", 3)
	st := &vStore{names: []string{path}, data: [][]byte{data}}
	fw, err := NewFileWrapper(st, path, 0)
	vAssert("wrapper_ok", err == nil)
	if err != nil {
		return
	}
	ts := fw.Ffo.TransferSize(0)
	announced := int(ts[0])<<24 | int(ts[1])<<16 | int(ts[2])<<8 | int(ts[3])
	w := &vBufW{}
	ft := &FileTransfer{bytesSentCounter: &WriteCounter{}}
	err = DownloadHandler(w, path, ft, st, vLogger(), true)
	vAssert("download_ok", err == nil)
	vAssert("announced_transfer_size_is_what_is_sent", len(w.b)-16 == announced)
	vAssert("data_fork_is_sent", len(w.b) >= 3)
}
