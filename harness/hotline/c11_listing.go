package hotline

import (
	"io/fs"
	"os"
)

// ---- directory reads (engine-only): os.ReadDir serves harness-defined folders; the ignore rule is the default
// pattern `^\.` (dot-files) ------------------------------------------------------------------------------------------

type vDirEntry struct{ info *vInfo }

func (d vDirEntry) Name() string               { return d.info.name }
func (d vDirEntry) IsDir() bool                { return d.info.dir }
func (d vDirEntry) Type() fs.FileMode          { return d.Info2().Mode().Type() }
func (d vDirEntry) Info() (fs.FileInfo, error) { return d.info, nil }
func (d vDirEntry) Info2() fs.FileInfo         { return d.info }

var vDirNames []string
var vDirLists [][]os.DirEntry

func vStub_os_ReadDir(name string) ([]os.DirEntry, error) {
	for i, n := range vDirNames {
		if n == name {
			return vDirLists[i], nil
		}
	}
	return nil, fs.ErrNotExist
}

func vStub_os_ReadFile(name string) ([]byte, error) {
	for i, n := range vNSNames {
		if n == name {
			return vNSData[i], nil
		}
	}
	return nil, fs.ErrNotExist
}

func vStub_regexp_MatchString(pattern string, s string) (bool, error) {
	return len(s) > 0 && s[0] == '.', nil
}

// The file list shows exactly the entries that are not dot-files; a partial upload appears under its final name;
// a folder shows the number of its visible children; and for a file (without resource fork) the size and type in
// the list are the ones get-info and the download header use - also when the stored info fork says something else
// than the file's extension suggests.
func VH_C11_ListingAgreesWithInfo_sym() {
	size := vInt("file_size")
	vAssume(0 <= size && size < 1<<32)
	// pic.jpg carries an info fork that records type TEXT / creator ttxt (e.g. it was renamed from pic.txt)
	info := make([]byte, 72)
	copy(info[0:], "AMAC")
	copy(info[4:], "TEXT")
	copy(info[8:], "ttxt")
	info[71] = 7
	info = append(info, "pic.jpg"...)
	info = append(info, 0, 0)
	vNSNames = []string{"/r/d/pic.jpg", "/r/d/.info_pic.jpg", "/r/d/up.bin.incomplete", "/r/d/sub", "/r/d/.secret", "/r/d/z\xc3\xa9"}
	vNSData = [][]byte{nil, info, []byte{1, 2, 3}, nil, []byte{9}, []byte{5}}
	vNSSizes = []int{size, len(info), 3, 0, 1, 1}
	vDirNames = []string{"/r/d", "/r/d/sub"}
	vDirLists = [][]os.DirEntry{
		{vDirEntry{&vInfo{name: ".info_pic.jpg", size: int64(len(info))}}, vDirEntry{&vInfo{name: ".secret", size: 1}}, vDirEntry{&vInfo{name: "pic.jpg", size: int64(size)}}, vDirEntry{&vInfo{name: "sub", dir: true}}, vDirEntry{&vInfo{name: "up.bin.incomplete", size: 3}}, vDirEntry{&vInfo{name: "z\xc3\xa9", size: 1}}},
		{vDirEntry{&vInfo{name: ".hidden", size: 1}}, vDirEntry{&vInfo{name: "a", size: 1}}, vDirEntry{&vInfo{name: "b", size: 1}}},
	}
	fields, err := GetFileNameList("/r/d", []string{`^\.`})
	vAssert("list_ok", err == nil)
	vAssert("exactly_the_visible_entries", len(fields) == 4)
	if len(fields) != 4 {
		return
	}
	// every record's name-size prefix equals the name bytes that follow (also for a name that is re-encoded)
	for _, fl := range fields {
		b := fl.Data
		vAssert("list_record_name_prefix_matches", len(b) >= 20 && int(b[18])<<8|int(b[19]) == len(b)-20)
	}
	vAssert("non_ascii_name_listed_in_wire_encoding", string(fields[3].Data[20:]) == "z\x8e")
	entry := func(i int) (ty string, sz int, name string) {
		b := fields[i].Data
		return string(b[0:4]), int(b[8])<<24 | int(b[9])<<16 | int(b[10])<<8 | int(b[11]), string(b[20:])
	}
	ty, sz, name := entry(0)
	vAssert("file_listed_by_name", name == "pic.jpg")
	vAssert("file_size_is_disk_size", sz == size)
	// what get-info and the download header report for the same file
	fw, ferr := NewFileWrapper(&OSFileStore{}, "/r/d/pic.jpg", 0)
	vAssert("wrapper_ok", ferr == nil)
	vAssert("list_type_agrees_with_get_info", ty == string(fw.Ffo.FlatFileInformationFork.TypeSignature[:]) && ty == "TEXT")
	ds := fw.Ffo.FlatFileDataForkHeader.DataSize
	vAssert("list_size_agrees_with_download_header", sz == int(ds[0])<<24|int(ds[1])<<16|int(ds[2])<<8|int(ds[3]))
	ty, sz, name = entry(1)
	vAssert("folder_listed_with_visible_child_count", name == "sub" && ty == "fldr" && sz == 2)
	ty, sz, name = entry(2)
	vAssert("partial_upload_listed_under_final_name", name == "up.bin" && sz == 3)
	vAssert("partial_upload_marked_partial", ty == "HTft")
}
