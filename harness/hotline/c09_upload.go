package hotline

import "io"

// vCutReader delivers the first cut bytes of data and then fails like a dying connection.
type vCutReader struct {
	data     []byte
	cut      int
	pos      int
	cleanEOF bool // the cut shows up as a clean end of stream instead of a read error
}

func (r *vCutReader) Read(p []byte) (int, error) {
	if r.pos >= r.cut {
		if r.cut >= len(r.data) || r.cleanEOF {
			return 0, io.EOF
		}
		return 0, vErr{}
	}
	n := copy(p, r.data[r.pos:r.cut])
	r.pos += n
	return n, nil
}
func (r *vCutReader) Write(p []byte) (int, error) { return len(p), nil }

// One upload attempt from an arbitrary state of the target name (final file absent/present, partial file absent
// or holding an arbitrary earlier prefix), the connection dying at an arbitrary byte offset of the stream
// (anywhere in the header or the data, or not at all). Because the state after a cut is again a valid start state,
// this step covers every sequence of cuts and resumes.
// one harness for both tiers: the variant with a fully symbolic cut offset did not finish within the thorough budget
// once fork preservation and the empty side file were part of the pre-state, so the cut menu is the registered bound
func VH_C09_UploadStep_sym() { c09UploadStep(false) }

func c09UploadStep(anyCut bool) {
	vUnroll(100)
	vNSNames, vNSData, vNSWrites = nil, nil, 0
	const final = "/r/up/f.bin"
	const partial = "/r/up/f.bin.incomplete"
	finalExists := vBool("final_exists")
	oldFinal := vBytesN("final_old", 2)
	if finalExists {
		vNSNames = append(vNSNames, final)
		vNSData = append(vNSData, oldFinal)
	}
	havePartial := vBool("partial_exists")
	prev := vBytesEach("partial_old", 2)
	if havePartial {
		vNSNames = append(vNSNames, partial)
		vNSData = append(vNSData, prev)
	} else {
		prev = nil
	}
	// an earlier attempt that was cut inside the header (with fork preservation on) leaves an empty info side file
	// (the thorough variant spends its budget on the symbolic cut offset and leaves these two to the quick menu)
	preserve := !anyCut && vBool("server_preserves_forks")
	if !anyCut && vBool("empty_info_side_file_left_by_an_earlier_cut") {
		vNSNames = append(vNSNames, "/r/up/.info_f.bin")
		vNSData = append(vNSData, []byte{})
	}
	data := vBytesEach("data", 3) // the bytes the client sends in this attempt (the rest of the file)
	stream := c02UploadStream([]byte("f.bin"), data)
	dataStart := len(stream) - len(data)
	var cut int
	if anyCut {
		cut = vInt("cut")
		vAssume(0 <= cut && cut <= len(stream))
	} else {
		// every offset from the last header byte onwards, plus one offset inside each header part
		menu := []int{0, 3, 23, 24, 39, 40, 111, dataStart - 17, dataStart - 16, dataStart - 1, dataStart, dataStart + 1, dataStart + 2, dataStart + 3}
		cut = menu[vChoice("cut_point", 14)]
		vAssume(cut <= len(stream))
	}
	r := &vCutReader{data: stream, cut: cut, cleanEOF: vBool("cut_is_clean_eof")}
	ft := &FileTransfer{bytesSentCounter: &WriteCounter{}}
	// the transfer record as the upload request handler leaves it: the announced total for a new upload, the
	// length of the partial file for a resume
	if havePartial {
		ft.TransferSize = refU32(len(prev))
	} else {
		ft.TransferSize = refU32(len(stream))
	}
	err := UploadHandler(r, final, ft, &vNSStore{}, vLogger(), preserve)

	fi, pi := vNSFind(final), vNSFind(partial)
	if finalExists {
		vAssert("existing_file_upload_refused", err != nil)
		vAssert("existing_file_never_overwritten", fi >= 0)
		if fi >= 0 {
			vAssertEqBytes("existing_file_content_untouched", vNSData[fi], oldFinal)
		}
		vAssert("existing_file_nothing_written", vNSWrites == 0)
		return
	}
	complete := cut >= len(stream)
	want := append(append([]byte(nil), prev...), data...)
	if complete {
		vAssert("complete_upload_ok", err == nil)
		vAssert("final_name_appears_when_complete", fi >= 0 && pi < 0)
		if fi >= 0 {
			vAssertEqBytes("final_file_is_exactly_what_was_sent", vNSData[fi], want)
		}
		return
	}
	vAssert("cut_upload_reports_error", err != nil)
	vAssert("final_name_absent_until_complete", fi < 0)
	got := 0
	if cut > dataStart {
		got = cut - dataStart
	}
	wantPartial := append(append([]byte(nil), prev...), data[:got]...)
	vAssert("partial_file_kept", pi >= 0)
	if pi >= 0 {
		vAssertEqBytes("partial_file_is_exactly_the_prefix_received", vNSData[pi], wantPartial)
	}
}
