package hotline

import (
	"io"
	"io/fs"
	"os"
)

// ---- namespace model for the os calls UploadHandler makes directly (engine-only) ----------------------------------

var vNSNames []string
var vNSData [][]byte
var vNSWrites int

func vNSFind(name string) int {
	for i, n := range vNSNames {
		if n == name {
			return i
		}
	}
	return -1
}

func vStub_os_Stat(name string) (fs.FileInfo, error) {
	for i, n := range vNSNames {
		if n == name {
			return &vInfo{name: "f", size: int64(len(vNSData[i]))}, nil
		}
	}
	return nil, fs.ErrNotExist
}

var vNSOpen = map[*os.File]string{}

func vStub_os_OpenFile(name string, flag int, perm os.FileMode) (*os.File, error) {
	if vNSFind(name) < 0 {
		if flag&os.O_CREATE == 0 {
			return nil, fs.ErrNotExist
		}
		vNSNames = append(vNSNames, name)
		vNSData = append(vNSData, []byte{})
	}
	f := new(os.File)
	vNSOpen[f] = name
	return f, nil
}

func vStub_os_File_Write(f *os.File, b []byte) (int, error) {
	name := vNSOpen[f]
	for i, n := range vNSNames {
		if n == name {
			vNSData[i] = append(append([]byte(nil), vNSData[i]...), b...) // O_APPEND
			vNSWrites++
			return len(b), nil
		}
	}
	return 0, fs.ErrInvalid
}

// io.CopyN hands the copy to (*os.File).ReadFrom: bytes are appended as they arrive, a read error ends the copy.
func vStub_os_File_ReadFrom(f *os.File, r io.Reader) (int64, error) {
	var total int64
	buf := make([]byte, 32768)
	for i := 0; i < 8; i++ {
		n, err := r.Read(buf)
		if n > 0 {
			vStub_os_File_Write(f, buf[:n])
			total += int64(n)
		}
		if err == io.EOF {
			return total, nil
		}
		if err != nil {
			return total, err
		}
	}
	return total, nil
}

// the file store used for the final rename operates on the same namespace
type vNSStore struct{ vStore }

func (s *vNSStore) Stat(name string) (fs.FileInfo, error) { return vStub_os_Stat(name) }
func (s *vNSStore) Rename(oldpath string, newpath string) error {
	i := vNSFind(oldpath)
	if i < 0 {
		return fs.ErrNotExist
	}
	if j := vNSFind(newpath); j >= 0 {
		vNSData[j] = vNSData[i]
		vNSNames = append(vNSNames[:i:i], vNSNames[i+1:]...)
		vNSData = append(vNSData[:i:i], vNSData[i+1:]...)
		return nil
	}
	vNSNames[i] = newpath
	return nil
}

// vCutReader delivers the first cut bytes of data and then fails like a dying connection.
type vCutReader struct {
	data []byte
	cut  int
	pos  int
}

func (r *vCutReader) Read(p []byte) (int, error) {
	if r.pos >= r.cut {
		if r.cut >= len(r.data) {
			return 0, io.EOF
		}
		return 0, vErr{}
	}
	n := copy(p, r.data[r.pos:r.cut])
	r.pos += n
	return n, nil
}
func (r *vCutReader) Write(p []byte) (int, error) { return len(p), nil }

// One upload attempt from an arbitrary state of the target name (final file absent/present, partial file absent
// or holding an arbitrary earlier prefix), the connection dying at an arbitrary byte offset of the stream
// (anywhere in the header or the data, or not at all). Because the state after a cut is again a valid start state,
// this step covers every sequence of cuts and resumes.
func VH_C09_UploadStep_sym_quick()    { c09UploadStep(false) }
func VH_C09_UploadStep_sym_thorough() { c09UploadStep(true) }

func c09UploadStep(anyCut bool) {
	vUnroll(100)
	vNSNames, vNSData, vNSWrites = nil, nil, 0
	const final = "/r/up/f.bin"
	const partial = "/r/up/f.bin.incomplete"
	finalExists := vBool("final_exists")
	oldFinal := vBytesN("final_old", 2)
	if finalExists {
		vNSNames = append(vNSNames, final)
		vNSData = append(vNSData, oldFinal)
	}
	havePartial := vBool("partial_exists")
	prev := vBytesEach("partial_old", 2)
	if havePartial {
		vNSNames = append(vNSNames, partial)
		vNSData = append(vNSData, prev)
	} else {
		prev = nil
	}
	data := vBytesEach("data", 3) // the bytes the client sends in this attempt (the rest of the file)
	stream := c02UploadStream([]byte("f.bin"), data)
	dataStart := len(stream) - len(data)
	var cut int
	if anyCut {
		cut = vInt("cut")
		vAssume(0 <= cut && cut <= len(stream))
	} else {
		// every offset from the last header byte onwards, plus one offset inside each header part
		menu := []int{0, 3, 23, 24, 39, 40, 111, dataStart - 17, dataStart - 1, dataStart, dataStart + 1, dataStart + 2, dataStart + 3}
		cut = menu[vChoice("cut_point", 13)]
		vAssume(cut <= len(stream))
	}
	r := &vCutReader{data: stream, cut: cut}
	ft := &FileTransfer{bytesSentCounter: &WriteCounter{}}
	err := UploadHandler(r, final, ft, &vNSStore{}, vLogger(), false)

	fi, pi := vNSFind(final), vNSFind(partial)
	if finalExists {
		vAssert("existing_file_upload_refused", err != nil)
		vAssert("existing_file_never_overwritten", fi >= 0)
		if fi >= 0 {
			vAssertEqBytes("existing_file_content_untouched", vNSData[fi], oldFinal)
		}
		vAssert("existing_file_nothing_written", vNSWrites == 0)
		return
	}
	complete := cut >= len(stream)
	want := append(append([]byte(nil), prev...), data...)
	if complete {
		vAssert("complete_upload_ok", err == nil)
		vAssert("final_name_appears_when_complete", fi >= 0 && pi < 0)
		if fi >= 0 {
			vAssertEqBytes("final_file_is_exactly_what_was_sent", vNSData[fi], want)
		}
		return
	}
	vAssert("cut_upload_reports_error", err != nil)
	vAssert("final_name_absent_until_complete", fi < 0)
	got := 0
	if cut > dataStart {
		got = cut - dataStart
	}
	wantPartial := append(append([]byte(nil), prev...), data[:got]...)
	vAssert("partial_file_kept", pi >= 0)
	if pi >= 0 {
		vAssertEqBytes("partial_file_is_exactly_the_prefix_received", vNSData[pi], wantPartial)
	}
}
