package hotline

import "golang.org/x/text/encoding"

// Mac-Roman <-> UTF-8 conversion (engine-only replacement). For symbolic strings it is the identity: the real
// decoder maps every byte < 0x80 to itself and every byte >= 0x80 to a multi-byte UTF-8 sequence of bytes >= 0x80,
// so it can neither introduce nor remove '/', '.' or NUL and path structure is unchanged by it. For concrete
// strings one representative non-ASCII character is converted faithfully: e-acute, UTF-8 C3 A9 <-> Mac-Roman 8E,
// which is enough to tell "encoded" from "not encoded" where a harness needs it (name length prefixes).
func vStub_encoding_Decoder_String(d *encoding.Decoder, s string) (string, error) {
	if !vIsConcrete(s) {
		return s, nil
	}
	var out []byte
	for i := 0; i < len(s); i++ {
		if s[i] == 0x8e {
			out = append(out, 0xc3, 0xa9)
		} else {
			out = append(out, s[i])
		}
	}
	return string(out), nil
}

func vStub_encoding_Encoder_String(e *encoding.Encoder, s string) (string, error) {
	if !vIsConcrete(s) {
		return s, nil
	}
	var out []byte
	for i := 0; i < len(s); i++ {
		if s[i] == 0xc3 && i+1 < len(s) && s[i+1] == 0xa9 {
			out = append(out, 0x8e)
			i++
		} else {
			out = append(out, s[i])
		}
	}
	return string(out), nil
}
