package hotline

import "golang.org/x/text/encoding"

// Mac-Roman <-> UTF-8 conversion (engine-only replacement): modelled as the identity. The real decoder maps every
// byte < 0x80 to itself and every byte >= 0x80 to a multi-byte UTF-8 sequence of bytes >= 0x80, so it can neither
// introduce nor remove '/', '.' or NUL: path structure is unchanged by it.
func vStub_encoding_Decoder_String(d *encoding.Decoder, s string) (string, error) { return s, nil }
func vStub_encoding_Encoder_String(e *encoding.Encoder, s string) (string, error) { return s, nil }
