package hotline

import (
	"io"
	"io/fs"
	"os"
	"time"
)

// ---- a file store whose files are byte strings; *os.File handles are served by engine-only stubs -------------

type vFileData struct {
	data []byte
	pos  int
}

var vFiles = map[*os.File]*vFileData{}

func vStub_os_File_Read(f *os.File, p []byte) (int, error) {
	d := vFiles[f]
	if d == nil {
		return 0, fs.ErrInvalid
	}
	if d.pos >= len(d.data) {
		return 0, io.EOF
	}
	n := copy(p, d.data[d.pos:])
	d.pos += n
	return n, nil
}
func vStub_os_File_Close(f *os.File) error { return nil }

// Seek: on a read handle it moves the cursor (the download path may use it to honour a resume offset). On a handle
// of the writable namespace (those are opened for appending) the offset is 0 until the first write through that
// handle and the end of the file after it, as the operating system reports it for O_APPEND.
func vStub_os_File_Seek(f *os.File, offset int64, whence int) (int64, error) {
	d := vFiles[f]
	if d == nil {
		if name, ok := vNSOpen[f]; ok {
			if i := vNSFind(name); i >= 0 && vNSWrote[f] {
				return int64(len(vNSData[i])), nil
			}
			return 0, nil
		}
		return 0, fs.ErrInvalid
	}
	switch whence {
	case 0:
		d.pos = int(offset)
	case 1:
		d.pos += int(offset)
	default:
		d.pos = len(d.data) + int(offset)
	}
	return int64(d.pos), nil
}

type vInfo struct {
	name string
	size int64
	dir  bool
	link bool // the entry is an alias (symbolic link): what lstat / a directory read reports
}

func (i *vInfo) Name() string       { return i.name }
func (i *vInfo) Size() int64        { return i.size }
func (i *vInfo) Mode() fs.FileMode {
	if i.link {
		return fs.ModeSymlink | 0777
	}
	if i.dir {
		return fs.ModeDir | 0755
	}
	return 0644
}
func (i *vInfo) ModTime() time.Time { return time.Time{} }
func (i *vInfo) IsDir() bool        { return i.dir }
func (i *vInfo) Sys() any           { return nil }

type vStore struct {
	names   []string
	data    [][]byte
	renames []string
}

// like the operating system: a path whose last component is longer than 255 bytes cannot be looked up at all
type vNameTooLong struct{}

func (vNameTooLong) Error() string { return "file name too long" }

func vBaseTooLong(name string) bool {
	n := 0
	for i := len(name) - 1; i >= 0 && name[i] != '/'; i-- {
		n++
	}
	return n > 255
}

func (s *vStore) find(name string) int {
	for i, n := range s.names {
		if n == name {
			return i
		}
	}
	return -1
}
func (s *vStore) Stat(name string) (fs.FileInfo, error) {
	if vBaseTooLong(name) {
		return nil, vNameTooLong{}
	}
	for i, n := range s.names {
		if n == name {
			return &vInfo{name: "target.txt", size: int64(len(s.data[i]))}, nil
		}
	}
	return nil, fs.ErrNotExist
}
func (s *vStore) Open(name string) (*os.File, error) {
	if vBaseTooLong(name) {
		return nil, vNameTooLong{}
	}
	for i, n := range s.names {
		if n == name {
			f := new(os.File)
			vFiles[f] = &vFileData{data: s.data[i]}
			return f, nil
		}
	}
	return nil, fs.ErrNotExist
}
func (s *vStore) ReadFile(name string) ([]byte, error) {
	if vBaseTooLong(name) {
		return nil, vNameTooLong{}
	}
	for i, n := range s.names {
		if n == name {
			return s.data[i], nil
		}
	}
	return nil, fs.ErrNotExist
}
func (s *vStore) Create(name string) (*os.File, error)      { return nil, fs.ErrPermission }
func (s *vStore) Mkdir(name string, perm os.FileMode) error { return nil }
func (s *vStore) OpenFile(name string, flag int, perm fs.FileMode) (*os.File, error) {
	return nil, fs.ErrPermission
}
func (s *vStore) Remove(name string) error    { return nil }
func (s *vStore) RemoveAll(path string) error { return nil }
func (s *vStore) Rename(oldpath string, newpath string) error {
	s.renames = append(s.renames, oldpath+" -> "+newpath)
	return nil
}
func (s *vStore) Symlink(oldname, newname string) error                      { return nil }
func (s *vStore) WriteFile(name string, data []byte, perm fs.FileMode) error { return nil }

// calendar/float conversion is outside every claim
func vStub_hotline_NewTime(t time.Time) (b Time) {
	copy(b[:], vBytesN("hltime", 8))
	return b
}
