package hotline

// c04Session runs the real connection handler over: handshake bytes, one login transaction, one further request.
type c04Run struct {
	srv        *Server
	conn       *vRW
	acct       *vAcctStub
	ban        *vBanStub
	other      *ClientConn
	otherConn  *vRecConn
	dispatched int
	loginID    [4]byte
	hs         []byte
	loginField []byte
	pwField    []byte
	acctPw     []byte
	err        error
	outbox     []Transaction
}

func (r *c04Run) handshakeValid() bool {
	h := r.hs
	return h[0] == 'T' && h[1] == 'R' && h[2] == 'T' && h[3] == 'P' && h[4] == 'H' && h[5] == 'O' && h[6] == 'T' && h[7] == 'L'
}

// the login the server must look up: the de-obfuscated login field, or "guest" when it is empty
func (r *c04Run) wantedLogin() string {
	if len(r.loginField) == 0 {
		return "guest"
	}
	b := make([]byte, len(r.loginField))
	for i := range r.loginField {
		b[i] = 255 - r.loginField[i]
	}
	return string(b)
}

func (r *c04Run) credentialsOK() bool {
	return r.acct.exists && r.wantedLogin() == r.acct.account.Login && string(r.pwField) == string(r.acctPw)
}

func (r *c04Run) sentToOthers() int {
	n := 0
	for _, t := range r.outbox {
		if t.ClientID == r.other.ID {
			n++
		}
	}
	return n
}

var c04HandshakeReply = []byte{'T', 'R', 'T', 'P', 0, 0, 0, 0}

// shared by C13 and C14: a message addressed to whatever ID a connected client holds reaches it, once, as its frame
func cDeliverToHeldID() {
	srv, _ := NewServer()
	conn := &vRecConn{}
	cc := &ClientConn{Connection: conn, Server: srv}
	if mgr, ok := srv.ClientMgr.(*MemClientMgr); ok {
		mgr.nextClientID.Store(vU32("connections_so_far"))
	}
	srv.ClientMgr.Add(cc)
	data := vBytesEach("data", 2)
	t := NewTransaction(TranServerMsg, cc.ID, NewField(FieldData, data))
	ref := refTransaction(&t, [][]byte{refField(FieldData[0], FieldData[1], data)})
	err := srv.sendTransaction(t)
	vAssert("send_ok", err == nil)
	vAssert("delivered_once_whatever_the_id", len(conn.writes) == 1)
	if len(conn.writes) == 1 {
		vAssertEqBytes("delivered_frame", conn.writes[0], ref)
	}
}
