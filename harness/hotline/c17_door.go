package hotline

import "time"

// The ban gate: connections from a banned address are refused right after the handshake, before any login is
// processed; a temporary ban stops refusing once it has expired; other addresses are unaffected.
func VH_C17_BanGate_sym() {
	mode := vChoice("ban_mode", 3) // 0 none, 1 permanent, 2 temporary
	r := &c04Run{}
	srv, _ := NewServer()
	srv.Logger = vLogger()
	vStartOutbox(srv)
	r.srv = srv
	r.acct = &vAcctStub{exists: true, account: Account{Login: "guest", Name: "g", Password: HashAndSalt(nil)}}
	srv.AccountManager = r.acct
	r.ban = &vBanStub{banned: mode != 0}
	var until time.Time
	if mode == 2 {
		until = vTimeAny("ban_until")
		r.ban.until = &until
	}
	srv.BanList = r.ban
	srv.Agreement = &vSeeker{text: []byte("agreement")}
	r.otherConn = &vRecConn{}
	r.other = &ClientConn{Connection: r.otherConn, Server: srv, Account: &Account{Login: "o"}, UserName: []byte("o")}
	srv.ClientMgr.Add(r.other)
	srv.HandleFunc(TranGetUserNameList, func(cc *ClientConn, t *Transaction) []Transaction {
		r.dispatched++
		return []Transaction{cc.NewReply(t)}
	})
	login := Transaction{Type: TranLogin, ID: [4]byte{0, 0, 0, 1}}
	next := Transaction{Type: TranGetUserNameList, ID: [4]byte{0, 0, 0, 7}}
	stream := []byte{'T', 'R', 'T', 'P', 'H', 'O', 'T', 'L', 0, 1, 0, 2}
	stream = append(stream, refTransaction(&login, nil)...) // empty login = guest, empty password
	stream = append(stream, refTransaction(&next, nil)...)
	r.conn = &vRW{r: &vChunkReader{data: stream, whole: true}}
	before := time.Now()
	r.err = srv.handleNewConnection(nil, r.conn, "10.1.2.3:4000")
	after := time.Now()
	r.outbox = vDrainOutbox(srv)

	vAssert("door_checks_the_peer_ip", len(r.ban.queries) == 1 && r.ban.queries[0] == "10.1.2.3")
	refusedExpected := mode == 1 || (mode == 2 && after.Before(until))
	admittedExpected := mode == 0 || (mode == 2 && !before.Before(until))
	if refusedExpected {
		vAssert("banned_not_served", r.dispatched == 0)
		vAssert("banned_login_not_processed", len(r.acct.getCalls) == 0)
		vAssert("banned_not_registered", len(srv.ClientMgr.List()) == 1)
		vAssert("banned_nothing_to_others", len(r.outbox) == 0)
		vAssert("banned_reads_only_the_handshake", r.conn.r.pos == 12)
		// handshake reply, then exactly one ban notice (a server message, not a reply)
		vAssert("banned_gets_notice", len(r.conn.out) > 8+22)
		rep := r.conn.out[8:]
		vAssert("ban_notice_is_server_message", rep[1] == 0 && rep[2] == TranServerMsg[0] && rep[3] == TranServerMsg[1])
		total := int(rep[12])<<24 | int(rep[13])<<16 | int(rep[14])<<8 | int(rep[15])
		vAssert("ban_notice_is_the_only_message", len(rep) == 20+total)
	}
	if admittedExpected {
		vAssert("unbanned_or_expired_is_served", r.dispatched == 1)
	}
}

// Disconnecting a user (whatever its name, the empty name included): removed from the registry, every other user is told the user left, connection closed.
func VH_C17_DisconnectEffects() {
	srv, _ := NewServer()
	srv.Logger = vLogger()
	vStartOutbox(srv)
	mk := func() (*ClientConn, *vRecConn) {
		c := &vRecConn{}
		cc := &ClientConn{Connection: c, Server: srv, Account: &Account{}, UserName: []byte("u")}
		srv.ClientMgr.Add(cc)
		return cc, c
	}
	a, _ := mk()
	target, tconn := mk()
	target.UserName = vBytesEach("target_name", 2) // any name, the empty one included
	b, _ := mk()
	target.Disconnect()
	out := vDrainOutbox(srv)
	vAssert("target_removed", srv.ClientMgr.Get(target.ID) == nil && len(srv.ClientMgr.List()) == 2)
	vAssert("target_connection_closed", tconn.closed == 1)
	vAssert("two_notices", len(out) == 2)
	toA, toB := 0, 0
	for _, t := range out {
		vAssert("notice_is_user_left", t.Type == TranNotifyDeleteUser && t.IsReply == 0)
		vAssert("notice_names_target", len(t.Fields) == 1 && t.Fields[0].Type == FieldUserID && t.Fields[0].Data[0] == target.ID[0] && t.Fields[0].Data[1] == target.ID[1])
		if t.ClientID == a.ID {
			toA++
		}
		if t.ClientID == b.ID {
			toB++
		}
	}
	vAssert("each_other_user_told_once", toA == 1 && toB == 1)
}
