package hotline

import (
	"io/fs"
	"os"
)

// vTreeStore: a directory namespace (full path -> exists) with rename/remove semantics of a real file system.
type vTreeStore struct {
	vStore
	paths []string
}

func (s *vTreeStore) has(p string) bool {
	for _, x := range s.paths {
		if x == p {
			return true
		}
	}
	return false
}
func (s *vTreeStore) drop(p string) {
	for i, x := range s.paths {
		if x == p {
			s.paths = append(s.paths[:i:i], s.paths[i+1:]...)
			return
		}
	}
}
func (s *vTreeStore) Stat(name string) (fs.FileInfo, error) {
	if s.has(name) {
		return &vInfo{name: "f.txt", size: 5}, nil
	}
	return nil, fs.ErrNotExist
}
func (s *vTreeStore) Rename(oldpath, newpath string) error {
	if !s.has(oldpath) {
		return os.ErrNotExist
	}
	s.drop(oldpath)
	s.drop(newpath)
	s.paths = append(s.paths, newpath)
	return nil
}
func (s *vTreeStore) Remove(name string) error {
	if !s.has(name) {
		return os.ErrNotExist
	}
	s.drop(name)
	return nil
}
func (s *vTreeStore) RemoveAll(name string) error { s.drop(name); return nil }

func c11Files(dir string) []string {
	return []string{dir + "/f.txt", dir + "/f.txt.incomplete", dir + "/.rsrc_f.txt", dir + "/.info_f.txt"}
}

// Move and delete carry the whole file: the data file, its partial data and its info/resource fork side files
// travel (or vanish) together, whichever of the side files exist; nothing else in the folder is touched.
func VH_C11_MoveDeleteCarryForks() {
	src := c11Files("/r/a")
	st := &vTreeStore{}
	st.paths = append(st.paths, "/r/a/other.txt", src[0])
	var had [4]bool
	had[0] = true
	for i := 1; i < 4; i++ {
		had[i] = vBool("side_file_exists")
		if had[i] {
			st.paths = append(st.paths, src[i])
		}
	}
	fw := &fileWrapper{fs: st, Name: "f.txt", path: "/r/a", dataPath: src[0], incompletePath: src[1], rsrcPath: src[2], infoPath: src[3]}
	if vBool("do_move") {
		err := fw.Move("/r/b")
		vAssert("move_ok", err == nil)
		dst := c11Files("/r/b")
		for i := 0; i < 4; i++ {
			vAssert("moved_file_left_source", !st.has(src[i]))
			vAssert("moved_file_arrived_iff_it_existed", st.has(dst[i]) == had[i])
		}
	} else {
		err := fw.Delete()
		vAssert("delete_ok", err == nil)
		for i := 0; i < 4; i++ {
			vAssert("deleted_file_and_forks_gone", !st.has(src[i]))
		}
	}
	vAssert("unrelated_entry_untouched", st.has("/r/a/other.txt"))
}

// DataFile resolves a file that only exists as a partial upload.
func VH_C11_DataFileFindsPartial() {
	src := c11Files("/r/a")
	st := &vTreeStore{}
	complete, partial := vBool("complete_exists"), vBool("partial_exists")
	if complete {
		st.paths = append(st.paths, src[0])
	}
	if partial {
		st.paths = append(st.paths, src[1])
	}
	fw := &fileWrapper{fs: st, Name: "f.txt", path: "/r/a", dataPath: src[0], incompletePath: src[1], rsrcPath: src[2], infoPath: src[3]}
	fi, err := fw.DataFile()
	vAssert("found_iff_complete_or_partial", (err == nil && fi != nil) == (complete || partial))
}

// Rename (set-file-info gives the wrapper a new name, then moves it within its folder): the data file and every
// existing side file end up under the new name; nothing is left under the old one.
func VH_C11_RenameCarriesForks() {
	src := c11Files("/r/a")
	st := &vTreeStore{}
	st.paths = append(st.paths, src[0])
	var had [4]bool
	had[0] = true
	for i := 1; i < 4; i++ {
		had[i] = vBool("side_file_exists")
		if had[i] {
			st.paths = append(st.paths, src[i])
		}
	}
	fw := &fileWrapper{fs: st, Name: "g.txt", path: "/r/a", dataPath: src[0], incompletePath: src[1], rsrcPath: src[2], infoPath: src[3]}
	err := fw.Move("/r/a")
	vAssert("rename_ok", err == nil)
	dst := []string{"/r/a/g.txt", "/r/a/g.txt.incomplete", "/r/a/.rsrc_g.txt", "/r/a/.info_g.txt"}
	for i := 0; i < 4; i++ {
		vAssert("nothing_left_under_old_name", !st.has(src[i]))
		vAssert("side_file_follows_new_name_iff_it_existed", st.has(dst[i]) == had[i])
	}
}

// Names as listed (wire encoding) address the entry on disk (native encoding) in every position of a path: the
// decoder is applied to path items and to the file name alike (e-acute: wire 0x8E, disk C3 A9).
func VH_C11_ListedNamesAddressEntries() {
	p, err := ReadPath("/r", []byte{0, 1, 0, 0, 4, 'c', 'a', 'f', 0x8e}, []byte{'x', 0x8e})
	vAssert("readpath_ok", err == nil)
	vAssert("path_item_and_name_decoded", p == "/r/caf\xc3\xa9/x\xc3\xa9")
	p2, err2 := ReadPath("/r", []byte{0, 2, 0, 0, 1, 'a', 0, 0, 2, 'b', 0x8e}, nil)
	vAssert("readpath2_ok", err2 == nil)
	vAssert("nested_path_item_decoded", p2 == "/r/a/b\xc3\xa9")
}
