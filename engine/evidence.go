package main

import (
	"encoding/json"
	"fmt"
	"go/types"
	"os"
	"os/exec"
	"path/filepath"
	"sort"
	"strings"
)

func typesPointer(t types.Type) types.Type { return types.NewPointer(t) }

func solverVersion(bin string) string {
	out, err := exec.Command(bin, "--version").Output()
	if err != nil {
		return bin + " (version unknown)"
	}
	return strings.TrimSpace(strings.Split(string(out), "\n")[0])
}

func writeEvidence(cfg *RunConfig, runs []*HarnessRun, reports []*HarnessReport, execs []*Exec, wall float64, inconcl []string, extra ...interface{}) {
	if repoDir != "/repo" {
		return // a run against a scratch copy (seeded change, refactoring trial) must not overwrite the evidence of /repo
	}
	var rr *ReplayResult
	violations := 0
	for _, x := range extra {
		switch v := x.(type) {
		case *ReplayResult:
			rr = v
		case int:
			violations = v
		}
	}
	if rr == nil {
		rr = &ReplayResult{}
	}
	states, trans := 0, 0
	funcs := map[string]int{}
	stubs := map[string]int{}
	lazy := map[string]int{}
	var samples []interface{}
	q := SolverStats{}
	obligations, discharged, trivial, failed, unknown := 0, 0, 0, 0, 0
	reach := 0
	assumes := 0
	var unwind []string
	xc, xd := 0, 0
	for i, h := range runs {
		if h == nil {
			continue
		}
		rep := reports[i]
		states += rep.Items
		trans += rep.Instrs
		q.Queries += rep.Queries.Queries
		q.Sat += rep.Queries.Sat
		q.Unsat += rep.Queries.Unsat
		q.Unknown += rep.Queries.Unknown
		q.Errors += rep.Queries.Errors
		q.Millis += rep.Queries.Millis
		q.CacheHit += rep.Queries.CacheHit
		assumes += h.Assumes
		xc += h.CrossChecked
		xd += h.CrossDisagree
		unwind = append(unwind, h.UnwindHits...)
		for _, k := range sortedStatKeys(h.Asserts) {
			a := h.Asserts[k]
			obligations += a.Reached
			discharged += a.Discharged
			trivial += a.Trivial
			failed += a.Failed
			unknown += a.Unknown
			if a.Reached > 0 {
				reach++
			}
		}
		for j, ob := range h.Obligations {
			if j < 3 {
				samples = append(samples, ob)
			}
		}
		for _, f := range h.Failures {
			samples = append(samples, map[string]interface{}{"harness": f.Harness, "assert": f.ID, "counterexample_model": modelToStrings(f.Model), "note": f.Msg})
		}
		e := execs[i]
		for k, v := range e.stats.Funcs {
			funcs[k] += v
		}
		for k, v := range e.stats.Stubs {
			stubs[k] += v
		}
		for k, v := range e.stats.LazyGlobs {
			lazy[k] += v
		}
	}
	if len(samples) == 0 {
		samples = append(samples, map[string]interface{}{"note": "no obligations were generated", "inconclusive": inconcl})
	}
	if states == 0 {
		states = 1
	}
	if trans == 0 {
		trans = 1
	}
	var encoded []string
	for k := range funcs {
		if strings.Contains(k, "VH_") || strings.Contains(k, ".vh") {
			continue
		}
		encoded = append(encoded, k)
	}
	sort.Strings(encoded)
	var stubList []string
	for k := range stubs {
		stubList = append(stubList, k)
	}
	sort.Strings(stubList)
	var lazyList []string
	for k := range lazy {
		lazyList = append(lazyList, k)
	}
	sort.Strings(lazyList)
	tier := cfg.Tier
	if tier != "quick" && tier != "thorough" {
		tier = "quick"
	}
	ev := map[string]interface{}{
		"property_id": cfg.Prop,
		"tier":        tier,
		"seed":        cfg.Seed,
		"level":       "model_checking",
		"wall_s":      wall,
		"violations":  violations,
		"coverage": map[string]interface{}{
			"states":                        states,
			"transitions":                   trans,
			"traces_validated_against_impl": tracesValidated(rr),
			"samples":                       samples,
			"explanation": "bounded symbolic execution of the real Go SSA of /repo (rebuilt from the working tree on this run) into SMT-LIB2; " +
				"states = symbolic states explored after merging, transitions = SSA instructions executed symbolically; " +
				"each obligation is pc => assertion decided by the solver for all values of the symbolic inputs within the harness bounds",
			"obligations":              obligations,
			"discharged_by_solver":     discharged,
			"discharged_syntactically": trivial,
			"failed":                   failed,
			"unknown":                  unknown,
			"assert_ids_reached":       reach,
			"assumptions_stated":       assumes,
			"queries":                  map[string]int{"total": q.Queries, "sat": q.Sat, "unsat": q.Unsat, "unknown": q.Unknown, "error": q.Errors, "cache_hits": q.CacheHit},
			"solver_ms":                q.Millis,
			"solver":                   solverVersion(cfg.Solver),
			"cross_checked_obligations": map[string]interface{}{"second_solver": func() string {
				if cfg.Tier == "thorough" && cfg.XSolver != "" {
					return solverVersion(cfg.XSolver)
				}
				return "off in the quick tier"
			}(), "checked": xc, "disagreements": xd},
			"functions_encoded":                     encoded,
			"stubs_and_intrinsics":                  stubList,
			"uninitialised_dependency_globals_read": lazyList,
			"unwinding_bound_hits":                  unwind,
			"inconclusive":                          inconcl,
			"harnesses":                             reports,
			"translator_validation":                 map[string]int{"sampled_paths_agreeing_with_native_run": rr.TracesOK, "disagreeing": rr.TraceMismatch, "native_replays_run": rr.Replays},
		},
		"assumptions": []string{
			"Go semantics as implemented by the gosmt executor (engine/*.go): 64-bit ints as bit-vectors, byte sequences as functional arrays, maps iterate in insertion order",
			"environment stubs listed under coverage.stubs_and_intrinsics follow their documented contracts",
			"bounds are those stated in each harness (vBytes maxima, loop unrolling) and in DESIGN.md for this property; inputs beyond them are outside the claim",
			"solver soundness (" + solverVersion(cfg.Solver) + ")",
		},
	}
	os.MkdirAll(filepath.Join(cfg.VerifDir, "evidence"), 0o755)
	b, _ := json.MarshalIndent(ev, "", " ")
	if err := os.WriteFile(filepath.Join(cfg.VerifDir, "evidence", cfg.Prop+".json"), b, 0o644); err != nil {
		fmt.Fprintf(os.Stderr, "cannot write evidence: %v\n", err)
	}
}

// tracesValidated = sampled completed paths whose native run agreed with the engine + counterexamples that the
// native run reproduced.
func tracesValidated(rr *ReplayResult) int {
	n := rr.TracesOK
	for _, ok := range rr.Failed {
		if ok {
			n++
		}
	}
	return n
}
