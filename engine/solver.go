package main

// Persistent SMT solver process (z3 -in by default). Terms are sent once as
// define-fun macros at level 0; queries are push / assert / check-sat / pop.

import (
	"bufio"
	"fmt"
	"io"
	"os/exec"
	"strconv"
	"strings"
	"time"
)

type SolverStats struct {
	Queries  int
	Sat      int
	Unsat    int
	Unknown  int
	Errors   int
	Millis   int64
	CacheHit int
}

type Solver struct {
	ctx       *TermCtx
	cmd       *exec.Cmd
	in        io.WriteCloser
	out       *bufio.Reader
	defined   map[int]bool
	declared  map[string]bool
	Stats     SolverStats
	timeoutMs int
	bin       string
	args      []string
	cache     map[string]string
	log       io.Writer
	dead      bool
	depth     int
	resetMode bool
	scopeDefs []int
	scopeDecl []string
}

func NewSolver(ctx *TermCtx, bin string, timeoutMs int) (*Solver, error) {
	s := &Solver{ctx: ctx, defined: map[int]bool{}, declared: map[string]bool{}, timeoutMs: timeoutMs, bin: bin, cache: map[string]string{}}
	if err := s.start(); err != nil {
		return nil, err
	}
	return s, nil
}

func (s *Solver) start() error {
	var args []string
	switch {
	case strings.Contains(s.bin, "cvc5"):
		args = []string{"--incremental", "--lang=smt2", "--produce-models", fmt.Sprintf("--tlimit-per=%d", s.timeoutMs)}
	default:
		args = []string{"-in", "-smt2"}
	}
	s.cmd = exec.Command(s.bin, args...)
	in, err := s.cmd.StdinPipe()
	if err != nil {
		return err
	}
	out, err := s.cmd.StdoutPipe()
	if err != nil {
		return err
	}
	s.cmd.Stderr = nil
	if err := s.cmd.Start(); err != nil {
		return err
	}
	s.in = in
	s.out = bufio.NewReaderSize(out, 1<<20)
	s.defined = map[int]bool{}
	s.declared = map[string]bool{}
	s.dead = false
	s.depth = 0
	s.scopeDefs, s.scopeDecl = nil, nil
	if !strings.Contains(s.bin, "cvc5") {
		s.send(fmt.Sprintf("(set-option :timeout %d)", s.timeoutMs))
		s.send("(set-option :model.completion true)")
	} else {
		s.send("(set-logic ALL)")
	}
	return nil
}

func (s *Solver) Close() {
	if s.cmd != nil && s.cmd.Process != nil {
		s.in.Close()
		s.cmd.Process.Kill()
		s.cmd.Wait()
	}
}

func (s *Solver) send(line string) {
	if s.log != nil {
		fmt.Fprintln(s.log, line)
	}
	io.WriteString(s.in, line)
	io.WriteString(s.in, "\n")
}

// define makes sure t and everything under it is known to the solver.
func (s *Solver) define(t *Term) {
	if t.konst || s.defined[t.id] {
		return
	}
	// iterative post-order to avoid deep recursion
	type fr struct {
		t *Term
		i int
	}
	stack := []fr{{t, 0}}
	for len(stack) > 0 {
		f := &stack[len(stack)-1]
		if f.t.konst || s.defined[f.t.id] {
			stack = stack[:len(stack)-1]
			continue
		}
		if f.i < len(f.t.args) {
			a := f.t.args[f.i]
			f.i++
			if !a.konst && !s.defined[a.id] {
				stack = append(stack, fr{a, 0})
			}
			continue
		}
		x := f.t
		if x.op == "var" {
			if !s.declared[x.name] {
				s.send(fmt.Sprintf("(declare-const %s %s)", smtName(x.name), sortStr(x.w)))
				s.declared[x.name] = true
				if s.depth > 0 {
					s.scopeDecl = append(s.scopeDecl, x.name)
				}
			}
		} else {
			s.send(fmt.Sprintf("(define-fun t%d () %s %s)", x.id, sortStr(x.w), x.body()))
		}
		s.defined[x.id] = true
		if s.depth > 0 {
			s.scopeDefs = append(s.scopeDefs, x.id)
		}
		stack = stack[:len(stack)-1]
	}
}

func (s *Solver) readLine() (string, error) {
	line, err := s.out.ReadString('\n')
	return strings.TrimSpace(line), err
}

// readSexp reads one balanced s-expression (possibly multi-line) or an atom line.
func (s *Solver) readSexp() (string, error) {
	var sb strings.Builder
	depth := 0
	started := false
	for {
		line, err := s.out.ReadString('\n')
		if err != nil {
			return sb.String(), err
		}
		inBar := false
		for _, ch := range line {
			switch {
			case ch == '|':
				inBar = !inBar
			case inBar:
			case ch == '(':
				depth++
				started = true
			case ch == ')':
				depth--
			}
		}
		sb.WriteString(line)
		if strings.TrimSpace(line) != "" && !started {
			return strings.TrimSpace(sb.String()), nil
		}
		if started && depth <= 0 {
			return strings.TrimSpace(sb.String()), nil
		}
	}
}

// Check decides satisfiability of the conjunction of ts. Returns "sat",
// "unsat", "unknown" or "error". If keep is true and the result is sat the
// assertion frame is left pushed so Model values can be read; the caller must
// call Pop.
func (s *Solver) check(ts []*Term, keep bool) string {
	if s.dead {
		if err := s.start(); err != nil {
			return "error"
		}
	}
	var key string
	if !keep {
		var sb strings.Builder
		seen := map[int]bool{}
		for _, t := range ts {
			if t.IsTrue() || seen[t.id] {
				continue
			}
			seen[t.id] = true
			sb.WriteString(strconv.Itoa(t.id))
			sb.WriteByte(',')
		}
		key = sb.String()
		if r, ok := s.cache[key]; ok {
			s.Stats.CacheHit++
			return r
		}
	}
	for _, t := range ts {
		if t.IsFalse() {
			return "unsat"
		}
	}
	start := time.Now()
	if s.resetMode {
		s.send("(reset)")
		s.send(fmt.Sprintf("(set-option :timeout %d)", s.timeoutMs))
		s.send("(set-option :model.completion true)")
		s.defined = map[int]bool{}
		s.declared = map[string]bool{}
		s.scopeDefs, s.scopeDecl = nil, nil
		s.depth = 0
	}
	for _, t := range ts {
		s.define(t)
	}
	s.send("(push 1)")
	s.depth++
	for _, t := range ts {
		if t.IsTrue() {
			continue
		}
		s.send(fmt.Sprintf("(assert %s)", t.ref()))
	}
	s.send("(check-sat)")
	res := "error"
	for {
		line, err := s.readLine()
		if err != nil {
			s.dead = true
			res = "error"
			break
		}
		if line == "" {
			continue
		}
		if line == "sat" || line == "unsat" || line == "unknown" {
			res = line
			break
		}
		if strings.HasPrefix(line, "(error") {
			// drain: z3 still answers check-sat after an error; mark error.
			res = "error"
			// read following answer if any
			for {
				l2, err2 := s.readLine()
				if err2 != nil || l2 == "sat" || l2 == "unsat" || l2 == "unknown" {
					break
				}
			}
			break
		}
	}
	s.Stats.Queries++
	s.Stats.Millis += time.Since(start).Milliseconds()
	switch res {
	case "sat":
		s.Stats.Sat++
	case "unsat":
		s.Stats.Unsat++
	case "unknown":
		s.Stats.Unknown++
	default:
		s.Stats.Errors++
	}
	if !(keep && res == "sat") {
		s.Pop()
	}
	if !keep {
		s.cache[key] = res
	}
	return res
}

func (s *Solver) Check(ts []*Term) string { return s.check(ts, false) }

// CheckKeep is Check but leaves the frame pushed on sat (call Pop after reading values).
func (s *Solver) CheckKeep(ts []*Term) string { return s.check(ts, true) }

func (s *Solver) Pop() {
	if s.depth > 0 {
		s.depth--
	}
	for _, id := range s.scopeDefs {
		delete(s.defined, id)
	}
	for _, n := range s.scopeDecl {
		delete(s.declared, n)
	}
	s.scopeDefs, s.scopeDecl = nil, nil
	if !s.dead {
		s.send("(pop 1)")
	}
}

// Eval returns the model values of bit-vector/bool terms after a kept sat.
func (s *Solver) Eval(ts []*Term) ([]uint64, error) {
	res := make([]uint64, len(ts))
	const batch = 256
	for off := 0; off < len(ts); off += batch {
		end := off + batch
		if end > len(ts) {
			end = len(ts)
		}
		var sb strings.Builder
		sb.WriteString("(get-value (")
		n := 0
		idx := []int{}
		for i := off; i < end; i++ {
			t := ts[i]
			if t.konst {
				res[i] = t.cv
				continue
			}
			s.define(t)
			sb.WriteString(t.ref())
			sb.WriteString(" ")
			idx = append(idx, i)
			n++
		}
		sb.WriteString("))")
		if n == 0 {
			continue
		}
		s.send(sb.String())
		txt, err := s.readSexp()
		if err != nil {
			s.dead = true
			return nil, err
		}
		if strings.HasPrefix(txt, "(error") {
			return nil, fmt.Errorf("solver: %s", txt)
		}
		vals := parseValues(txt)
		if len(vals) != n {
			return nil, fmt.Errorf("solver: expected %d values, got %d in %q", n, len(vals), txt)
		}
		for k, i := range idx {
			res[i] = vals[k]
		}
	}
	return res, nil
}

// parseValues extracts the value literal of each (term value) pair.
func parseValues(txt string) []uint64 {
	var vals []uint64
	// tokens of interest: #x..., #b..., true, false, (_ bvN w)
	i := 0
	depth := 0
	inBar := false
	pairStart := -1
	for i < len(txt) {
		ch := txt[i]
		if ch == '|' {
			inBar = !inBar
			i++
			continue
		}
		if inBar {
			i++
			continue
		}
		if ch == '(' {
			depth++
			if depth == 2 {
				pairStart = i
			}
		} else if ch == ')' {
			if depth == 2 && pairStart >= 0 {
				pair := txt[pairStart+1 : i]
				vals = append(vals, lastLiteral(pair))
				pairStart = -1
			}
			depth--
		}
		i++
	}
	return vals
}

func lastLiteral(pair string) uint64 {
	pair = strings.TrimSpace(pair)
	// value is the last token or last parenthesised group
	if strings.HasSuffix(pair, ")") {
		// (_ bv123 32)
		j := strings.LastIndex(pair, "(_ bv")
		if j >= 0 {
			f := strings.Fields(pair[j+5 : len(pair)-1])
			v, _ := strconv.ParseUint(f[0], 10, 64)
			return v
		}
		return 0
	}
	j := strings.LastIndexAny(pair, " \t\n")
	tok := pair[j+1:]
	switch {
	case tok == "true":
		return 1
	case tok == "false":
		return 0
	case strings.HasPrefix(tok, "#x"):
		v, _ := strconv.ParseUint(tok[2:], 16, 64)
		return v
	case strings.HasPrefix(tok, "#b"):
		v, _ := strconv.ParseUint(tok[2:], 2, 64)
		return v
	}
	return 0
}
