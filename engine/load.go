package main

import (
	"fmt"
	"os"
	"path/filepath"
	"sort"
	"strings"

	"golang.org/x/tools/go/packages"
	"golang.org/x/tools/go/ssa"
	"golang.org/x/tools/go/ssa/ssautil"
)

var repoDir = func() string {
	if d := os.Getenv("VERIF_REPO"); d != "" {
		return d
	}
	return "/repo"
}()

var harnessPkgDirs = map[string]string{
	"hotline": "hotline",
	"mobius":  "internal/mobius",
}

const apiSymbolic = `package PKG

import "time"

// Declarations intercepted by the symbolic executor (no bodies).
func vU8(name string) byte
func vU16(name string) uint16
func vU32(name string) uint32
func vU64(name string) uint64
func vInt(name string) int
func vBool(name string) bool
func vBytes(name string, maxLen int) []byte
func vBytesN(name string, n int) []byte
func vBytesEach(name string, maxLen int) []byte
func vString(name string, maxLen int) string
func vChoice(name string, n int) int
func vConcrete(x int) int
func vAssume(c bool)
func vAssert(id string, c bool)
func vAssertEqBytes(id string, a, b []byte)
func vAssertEqBytesEither(id string, a, b, c []byte)
func vReach(id string)
func vUnroll(n int)
func vNoMerge()
func vSymbolic() bool
func vIsConcrete(s string) bool
func vRunSpawned() int
func vSpawnCount() int
func vSendCount() int
func vLocksHeldNow() int
func vDistinctRandom()
func vSharedMapRaces() int
func vObserveInt(name string, x int)
func vObserveBool(name string, x bool)
func vObserveBytes(name string, b []byte)
func vObserveString(name string, s string)
func vLog(args ...interface{})
func vTagMap(x interface{}) map[string]interface{}
func vTimeAny(name string) time.Time
`

const apiNative = `package PKG

import (
	"bytes"
	"encoding/hex"
	"fmt"
	"reflect"
	"strconv"
	"strings"
	"time"
)

var vModel = map[string]string{}
var vCounts = map[string]int{}
var vFailedIDs []string
var vObserved = map[string]string{}
var vObsCounts = map[string]int{}

type vStop struct{ why string }

func vReset(m map[string]string) {
	vModel = m
	vCounts = map[string]int{}
	vFailedIDs = nil
	vObserved = map[string]string{}
	vObsCounts = map[string]int{}
}
func vKey(name string) string {
	k := vCounts[name]
	vCounts[name] = k + 1
	return fmt.Sprintf("%s#%d", name, k)
}
func vNum(name string) uint64 {
	s, ok := vModel[vKey(name)]
	if !ok {
		return 0
	}
	v, _ := strconv.ParseUint(s, 10, 64)
	return v
}
func vU8(name string) byte    { return byte(vNum(name)) }
func vU16(name string) uint16 { return uint16(vNum(name)) }
func vU32(name string) uint32 { return uint32(vNum(name)) }
func vU64(name string) uint64 { return vNum(name) }
func vInt(name string) int    { return int(vNum(name)) }
func vBool(name string) bool  { return vNum(name) != 0 }
func vBytes(name string, maxLen int) []byte {
	s, ok := vModel[vKey(name)]
	if !ok {
		return []byte{}
	}
	b, _ := hex.DecodeString(s)
	if b == nil {
		b = []byte{}
	}
	return b
}
func vBytesN(name string, n int) []byte {
	b := vBytes(name, n)
	for len(b) < n {
		b = append(b, 0)
	}
	return b[:n:n]
}
func vBytesEach(name string, maxLen int) []byte { return vBytes(name, maxLen) }
func vString(name string, maxLen int) string  { return string(vBytes(name, maxLen)) }
func vChoice(name string, n int) int         { return int(vNum(name)) }
func vConcrete(x int) int                    { return x }
func vAssume(c bool) {
	if !c {
		panic(vStop{"assumption violated"})
	}
}
func vAssert(id string, c bool) {
	if !c {
		vFailedIDs = append(vFailedIDs, id)
	}
}
func vAssertEqBytes(id string, a, b []byte) {
	if !bytes.Equal(a, b) {
		vFailedIDs = append(vFailedIDs, id)
	}
}
func vAssertEqBytesEither(id string, a, b, c []byte) {
	if !bytes.Equal(a, b) && !bytes.Equal(a, c) {
		vFailedIDs = append(vFailedIDs, id)
	}
}
func vReach(id string)  {}
func vUnroll(n int)     {}
func vNoMerge()         {}
func vSymbolic() bool   { return false }
func vIsConcrete(s string) bool { return true }
func vRunSpawned() int  { return 0 }
func vSpawnCount() int  { return 0 }
func vSendCount() int   { return 0 }
func vLocksHeldNow() int { return 0 }
func vDistinctRandom()    {}
func vSharedMapRaces() int { return 0 }
func vObsKey(name string) string {
	k := vObsCounts[name]
	vObsCounts[name] = k + 1
	return fmt.Sprintf("%s#%d", name, k)
}
func vObserveInt(name string, x int) { vObserved[vObsKey(name)] = strconv.FormatUint(uint64(x), 10) }
func vObserveBool(name string, x bool) {
	v := "0"
	if x {
		v = "1"
	}
	vObserved[vObsKey(name)] = v
}
func vObserveBytes(name string, b []byte) {
	m := len(b)
	if m > 4096 {
		m = 4096
	}
	vObserved[vObsKey(name)] = fmt.Sprintf("%d:%x", len(b), b[:m])
}
func vObserveString(name string, s string) { vObserveBytes(name, []byte(s)) }
func vLog(args ...interface{})              {}
func vTimeAny(name string) time.Time {
	sec := int64(vNumKey(name + ".sec#0"))
	nsec := int64(vNumKey(name + ".nsec#0"))
	return time.Unix(sec-62135596800, nsec).UTC()
}
func vNumKey(k string) uint64 {
	v, _ := strconv.ParseUint(vModel[k], 10, 64)
	return v
}
func vTagMap(x interface{}) map[string]interface{} {
	m := map[string]interface{}{}
	v := reflect.ValueOf(x)
	t := v.Type()
	for i := 0; i < t.NumField(); i++ {
		key := strings.Split(t.Field(i).Tag.Get("yaml"), ",")[0]
		if key == "" {
			key = strings.ToLower(t.Field(i).Name)
		}
		if key == "-" {
			continue
		}
		if strings.Contains(t.Field(i).Tag.Get("yaml"), ",omitempty") {
			f := v.Field(i)
			switch f.Kind() {
			case reflect.Map, reflect.Slice, reflect.String:
				if f.Len() == 0 {
					continue
				}
			case reflect.Array, reflect.Struct:
			default:
				if f.IsZero() {
					continue
				}
			}
		}
		m[key] = v.Field(i).Interface()
	}
	return m
}
`

type Loaded struct {
	Prog      *ssa.Program
	Pkgs      map[string]*ssa.Package // by short name (hotline, mobius)
	Harnesses []*ssa.Function
	Files     map[string][]string // pkg short name -> harness source files (real paths)
	LoadSecs  float64
}

// harnessFiles lists the harness sources for a property: common*.go plus <prop>*.go (lower-case prefix).
func harnessFiles(verifDir, pkg, prop string) []string {
	dir := filepath.Join(verifDir, "harness", pkg)
	ents, err := os.ReadDir(dir)
	if err != nil {
		return nil
	}
	var out []string
	lp := strings.ToLower(prop)
	for _, en := range ents {
		n := en.Name()
		if !strings.HasSuffix(n, ".go") {
			continue
		}
		if strings.HasPrefix(n, "common") || strings.HasPrefix(n, lp) {
			out = append(out, filepath.Join(dir, n))
		}
	}
	sort.Strings(out)
	return out
}

func loadProgram(verifDir, prop string) (*Loaded, error) {
	overlay := map[string][]byte{}
	files := map[string][]string{}
	var patterns []string
	for short, rel := range harnessPkgDirs {
		hf := harnessFiles(verifDir, short, prop)
		onlyCommon := true
		for _, f := range hf {
			if !strings.HasPrefix(filepath.Base(f), "common") {
				onlyCommon = false
			}
		}
		patterns = append(patterns, "./"+rel)
		if onlyCommon {
			continue
		}
		files[short] = hf
		for _, f := range hf {
			src, err := os.ReadFile(f)
			if err != nil {
				return nil, err
			}
			overlay[filepath.Join(repoDir, rel, "zz_verif_"+filepath.Base(f))] = src
		}
		pkgName := short
		overlay[filepath.Join(repoDir, rel, "zz_verif_api.go")] = []byte(strings.Replace(apiSymbolic, "PKG", pkgName, 1))
	}
	sort.Strings(patterns)
	cfg := &packages.Config{
		Mode: packages.NeedName | packages.NeedFiles | packages.NeedCompiledGoFiles | packages.NeedImports |
			packages.NeedDeps | packages.NeedTypes | packages.NeedSyntax | packages.NeedTypesInfo | packages.NeedTypesSizes | packages.NeedModule,
		Dir:     repoDir,
		Overlay: overlay,
		Env:     append(os.Environ(), "GOFLAGS=-mod=mod", "GOPROXY=off", "GOSUMDB=off", "GOTOOLCHAIN=local", "CGO_ENABLED=0"),
	}
	pkgs, err := packages.Load(cfg, patterns...)
	if err != nil {
		return nil, err
	}
	var errs []string
	packages.Visit(pkgs, nil, func(p *packages.Package) {
		for _, e := range p.Errors {
			// body-less declarations of the harness API are reported as "missing function body"
			if strings.Contains(e.Msg, "missing function body") && strings.Contains(e.Pos, "zz_verif_api.go") {
				continue
			}
			errs = append(errs, e.Error())
		}
	})
	if len(errs) > 0 {
		return nil, fmt.Errorf("load errors:\n%s", strings.Join(errs, "\n"))
	}
	prog, spkgs := ssautil.AllPackages(pkgs, ssa.InstantiateGenerics)
	prog.Build()
	ld := &Loaded{Prog: prog, Pkgs: map[string]*ssa.Package{}, Files: files}
	for i, p := range pkgs {
		if spkgs[i] == nil {
			return nil, fmt.Errorf("no SSA for %s", p.PkgPath)
		}
		ld.Pkgs[p.Name] = spkgs[i]
	}
	prefix := "VH_" + prop + "_"
	for _, sp := range ld.Pkgs {
		var names []string
		for n := range sp.Members {
			names = append(names, n)
		}
		sort.Strings(names)
		for _, n := range names {
			if fn, ok := sp.Members[n].(*ssa.Function); ok && strings.HasPrefix(n, prefix) {
				ld.Harnesses = append(ld.Harnesses, fn)
			}
		}
	}
	return ld, nil
}
