package main

import (
	"fmt"
	"go/types"

	"golang.org/x/tools/go/ssa"
)

// Value is a symbolic Go value. All values are immutable; updates copy.
type Value interface{}

type BV struct{ T *Term }    // any integer type, width = T.w
type BoolV struct{ T *Term } // bool

type PathElem struct {
	Field int   // >=0: struct field index
	Idx   *Term // non-nil: array/container element index (64-bit)
}

// Ptr is a pointer to (object, path). Obj < 0 means nil.
type Ptr struct {
	Obj  int
	Path []PathElem
	Fn   *ssa.Function // pointer to function object (rare)
}

var nilPtr = Ptr{Obj: -1}

func (p Ptr) IsNil() bool { return p.Obj < 0 }

func (p Ptr) With(e PathElem) Ptr {
	np := make([]PathElem, len(p.Path)+1)
	copy(np, p.Path)
	np[len(p.Path)] = e
	return Ptr{Obj: p.Obj, Path: np}
}

func samePath(a, b []PathElem) bool {
	if len(a) != len(b) {
		return false
	}
	for i := range a {
		if a[i].Field != b[i].Field || a[i].Idx != b[i].Idx {
			return false
		}
	}
	return true
}

type StructV struct{ F []Value }
type ArrayV struct{ E []Value }  // non-byte arrays and backing stores of non-byte slices
type ByteArr struct{ E []*Term } // [N]byte, each element an 8-bit term
type ByteBuf struct {            // backing store of a []byte with symbolic length
	C   Content
	Len *Term
}
type SliceV struct {
	Base Ptr // pointer to container (ArrayV, ByteArr or ByteBuf); nil slice: Base.Obj<0
	Off  *Term
	Len  *Term
	Cap  *Term
}
type StringV struct {
	C   Content
	Off *Term
	Len *Term
}
type IfaceV struct {
	T types.Type // nil = nil interface
	V Value
}
type MapV struct{ Obj int } // Obj<0: nil map
type MapObj struct {
	Keys []Value
	Vals []Value
}
type FuncV struct {
	Fn   *ssa.Function
	Bind []Value
	Nil  bool
}
type TupleV []Value
type ChanV struct{ Obj int }
type OpaqueV struct{ Tag string } // values we do not model (float etc.)
type MapIter struct {
	Obj int
	Pos int
	Str *StringV
}

// --- byte contents ------------------------------------------------------------

// Content is an immutable function from 64-bit index to byte term.
type Content interface{}

type CBase struct{ Arr *Term }
type CConst struct{ Data []byte }
type CZero struct{}
type CStore struct {
	Prev Content
	Idx  *Term
	Val  *Term
}
type CCopy struct {
	Prev   Content
	DstOff *Term
	N      *Term
	Src    Content
	SrcOff *Term
}
type CIte struct {
	Cond *Term
	A, B Content
}
type CVec struct{ E []*Term }

// CMapByte: every byte equal to Old is replaced by New (strings.ReplaceAll with one-byte patterns)
type CMapByte struct {
	Src      Content
	Old, New *Term
}

var czero Content = &CZero{}

// byte arrays longer than bigArr are held as ByteBuf (functional content) instead of element vectors
const bigArr = 64

type selKey struct {
	c   Content
	idx int
}

func (e *Exec) sel(c Content, idx *Term) *Term {
	tc := e.tc
	switch x := c.(type) {
	case *CZero:
		return tc.BVConst(0, 8)
	case *CBase:
		return tc.Select(x.Arr, idx)
	}
	k := selKey{c, idx.id}
	if t, ok := e.selMemo[k]; ok {
		return t
	}
	var r *Term
	switch x := c.(type) {
	case *CConst:
		if idx.konst {
			if idx.cv < uint64(len(x.Data)) {
				r = tc.BVConst(uint64(x.Data[idx.cv]), 8)
			} else {
				r = tc.BVConst(0, 8)
			}
		} else {
			r = tc.BVConst(0, 8)
			for i := len(x.Data) - 1; i >= 0; i-- {
				r = tc.Ite(tc.Eq(idx, tc.Int(int64(i))), tc.BVConst(uint64(x.Data[i]), 8), r)
			}
		}
	case *CVec:
		if idx.konst {
			if idx.cv < uint64(len(x.E)) {
				r = x.E[idx.cv]
			} else {
				r = tc.BVConst(0, 8)
			}
		} else {
			r = tc.BVConst(0, 8)
			for i := len(x.E) - 1; i >= 0; i-- {
				r = tc.Ite(tc.Eq(idx, tc.Int(int64(i))), x.E[i], r)
			}
		}
	case *CStore:
		c := tc.Eq(idx, x.Idx)
		if c.IsTrue() {
			r = x.Val
		} else if c.IsFalse() {
			r = e.sel(x.Prev, idx)
		} else {
			r = tc.Ite(c, x.Val, e.sel(x.Prev, idx))
		}
	case *CCopy:
		in := tc.And(tc.Ule(x.DstOff, idx), tc.Ult(idx, tc.Add(x.DstOff, x.N)))
		if in.IsFalse() {
			r = e.sel(x.Prev, idx)
		} else {
			sv := e.sel(x.Src, tc.Add(tc.Sub(idx, x.DstOff), x.SrcOff))
			if in.IsTrue() {
				r = sv
			} else {
				r = tc.Ite(in, sv, e.sel(x.Prev, idx))
			}
		}
	case *CIte:
		r = tc.Ite(x.Cond, e.sel(x.A, idx), e.sel(x.B, idx))
	case *CMapByte:
		b := e.sel(x.Src, idx)
		r = tc.Ite(tc.Eq(b, x.Old), x.New, b)
	default:
		panic(fmt.Sprintf("sel: unknown content %T", c))
	}
	e.selMemo[k] = r
	return r
}

func (e *Exec) mergeContent(c *Term, a, b Content) Content {
	if a == b {
		return a
	}
	if sa, ok := a.(*CStore); ok {
		if sa.Prev == b {
			return &CStore{Prev: b, Idx: sa.Idx, Val: e.tc.Ite(c, sa.Val, e.sel(b, sa.Idx))}
		}
		if sb, ok := b.(*CStore); ok && sa.Prev == sb.Prev && sa.Idx == sb.Idx {
			return &CStore{Prev: sa.Prev, Idx: sa.Idx, Val: e.tc.Ite(c, sa.Val, sb.Val)}
		}
	}
	if sb, ok := b.(*CStore); ok && sb.Prev == a {
		return &CStore{Prev: a, Idx: sb.Idx, Val: e.tc.Ite(c, e.sel(a, sb.Idx), sb.Val)}
	}
	if ca, ok := a.(*CConst); ok {
		if cb, ok := b.(*CConst); ok && string(ca.Data) == string(cb.Data) {
			return a
		}
	}
	return &CIte{Cond: c, A: a, B: b}
}

// --- types --------------------------------------------------------------------

func isByteType(t types.Type) bool {
	b, ok := t.Underlying().(*types.Basic)
	return ok && (b.Kind() == types.Uint8 || b.Kind() == types.Byte)
}

func intWidth(t types.Type) (w int, signed bool, ok bool) {
	b, isb := t.Underlying().(*types.Basic)
	if !isb {
		return 0, false, false
	}
	switch b.Kind() {
	case types.Int8:
		return 8, true, true
	case types.Int16:
		return 16, true, true
	case types.Int32, types.UntypedRune:
		return 32, true, true
	case types.Int64, types.Int, types.UntypedInt:
		return 64, true, true
	case types.Uint8:
		return 8, false, true
	case types.Uint16:
		return 16, false, true
	case types.Uint32:
		return 32, false, true
	case types.Uint64, types.Uint, types.Uintptr:
		return 64, false, true
	}
	return 0, false, false
}

func (e *Exec) zero(t types.Type) Value {
	tc := e.tc
	switch u := t.Underlying().(type) {
	case *types.Basic:
		if w, _, ok := intWidth(t); ok {
			return BV{tc.BVConst(0, w)}
		}
		switch u.Kind() {
		case types.Bool, types.UntypedBool:
			return BoolV{tc.False()}
		case types.String, types.UntypedString:
			return StringV{C: czero, Off: tc.Int(0), Len: tc.Int(0)}
		case types.UnsafePointer:
			return nilPtr
		case types.Float32, types.Float64, types.UntypedFloat:
			return OpaqueV{"float0"}
		case types.UntypedNil:
			return nilPtr
		}
		return OpaqueV{"basic:" + u.Name()}
	case *types.Pointer:
		return nilPtr
	case *types.Struct:
		f := make([]Value, u.NumFields())
		for i := range f {
			f[i] = e.zero(u.Field(i).Type())
		}
		return StructV{f}
	case *types.Array:
		n := int(u.Len())
		if isByteType(u.Elem()) {
			if n > bigArr {
				return ByteBuf{C: czero, Len: tc.Int(int64(n))}
			}
			el := make([]*Term, n)
			z := tc.BVConst(0, 8)
			for i := range el {
				el[i] = z
			}
			return ByteArr{el}
		}
		el := make([]Value, n)
		if n > 0 {
			z := e.zero(u.Elem())
			for i := range el {
				el[i] = z
			}
		}
		return ArrayV{el}
	case *types.Slice:
		return SliceV{Base: nilPtr, Off: tc.Int(0), Len: tc.Int(0), Cap: tc.Int(0)}
	case *types.Interface:
		return IfaceV{}
	case *types.Map:
		return MapV{Obj: -1}
	case *types.Signature:
		return FuncV{Nil: true}
	case *types.Chan:
		return ChanV{Obj: -1}
	case *types.Tuple:
		r := make(TupleV, u.Len())
		for i := range r {
			r[i] = e.zero(u.At(i).Type())
		}
		return r
	}
	panic(unsupported("zero value of %s", t))
}

type Unsupported struct{ Msg string }

func (u Unsupported) Error() string { return "unsupported: " + u.Msg }

func unsupported(f string, a ...interface{}) Unsupported {
	return Unsupported{fmt.Sprintf(f, a...)}
}

// --- merging --------------------------------------------------------------------

type mergeFail struct{ why string }

// mergeValue returns ite(c, a, b) for values, or fails (panic mergeFail).
func (e *Exec) mergeValue(c *Term, a, b Value) Value {
	tc := e.tc
	switch x := a.(type) {
	case BV:
		y, ok := b.(BV)
		if !ok || x.T.w != y.T.w {
			panic(mergeFail{"bv"})
		}
		return BV{tc.Ite(c, x.T, y.T)}
	case BoolV:
		y, ok := b.(BoolV)
		if !ok {
			panic(mergeFail{"bool"})
		}
		return BoolV{tc.Ite(c, x.T, y.T)}
	case Ptr:
		y, ok := b.(Ptr)
		if !ok || x.Obj != y.Obj || !samePath(x.Path, y.Path) || x.Fn != y.Fn {
			panic(mergeFail{"ptr"})
		}
		return x
	case StructV:
		y, ok := b.(StructV)
		if !ok || len(x.F) != len(y.F) {
			panic(mergeFail{"struct"})
		}
		var out []Value
		for i := range x.F {
			m := e.mergeValue(c, x.F[i], y.F[i])
			if out == nil && !sameValue(m, x.F[i]) {
				out = make([]Value, len(x.F))
				copy(out, x.F[:i])
			}
			if out != nil {
				out[i] = m
			}
		}
		if out == nil {
			return x
		}
		return StructV{out}
	case ArrayV:
		y, ok := b.(ArrayV)
		if !ok || len(x.E) != len(y.E) {
			panic(mergeFail{"array"})
		}
		out := make([]Value, len(x.E))
		for i := range x.E {
			out[i] = e.mergeValue(c, x.E[i], y.E[i])
		}
		return ArrayV{out}
	case ByteArr:
		y, ok := b.(ByteArr)
		if !ok || len(x.E) != len(y.E) {
			panic(mergeFail{"bytearr"})
		}
		out := make([]*Term, len(x.E))
		for i := range x.E {
			out[i] = tc.Ite(c, x.E[i], y.E[i])
		}
		return ByteArr{out}
	case ByteBuf:
		y, ok := b.(ByteBuf)
		if !ok {
			panic(mergeFail{"bytebuf"})
		}
		return ByteBuf{C: e.mergeContent(c, x.C, y.C), Len: tc.Ite(c, x.Len, y.Len)}
	case SliceV:
		y, ok := b.(SliceV)
		if !ok || x.Base.Obj != y.Base.Obj || !samePath(x.Base.Path, y.Base.Path) {
			panic(mergeFail{"slice base"})
		}
		return SliceV{Base: x.Base, Off: tc.Ite(c, x.Off, y.Off), Len: tc.Ite(c, x.Len, y.Len), Cap: tc.Ite(c, x.Cap, y.Cap)}
	case StringV:
		y, ok := b.(StringV)
		if !ok {
			panic(mergeFail{"string"})
		}
		return StringV{C: e.mergeContent(c, x.C, y.C), Off: tc.Ite(c, x.Off, y.Off), Len: tc.Ite(c, x.Len, y.Len)}
	case IfaceV:
		y, ok := b.(IfaceV)
		if !ok {
			panic(mergeFail{"iface"})
		}
		if x.T == nil && y.T == nil {
			return x
		}
		if x.T == nil || y.T == nil || !types.Identical(x.T, y.T) {
			panic(mergeFail{"iface dyn type"})
		}
		return IfaceV{T: x.T, V: e.mergeValue(c, x.V, y.V)}
	case MapV:
		y, ok := b.(MapV)
		if !ok || x.Obj != y.Obj {
			panic(mergeFail{"map"})
		}
		return x
	case MapObj:
		y, ok := b.(MapObj)
		if !ok || len(x.Keys) != len(y.Keys) {
			panic(mergeFail{"mapobj"})
		}
		ks := make([]Value, len(x.Keys))
		vs := make([]Value, len(x.Keys))
		for i := range x.Keys {
			ks[i] = e.mergeValue(c, x.Keys[i], y.Keys[i])
			vs[i] = e.mergeValue(c, x.Vals[i], y.Vals[i])
		}
		return MapObj{ks, vs}
	case FuncV:
		y, ok := b.(FuncV)
		if !ok || x.Fn != y.Fn || x.Nil != y.Nil || len(x.Bind) != len(y.Bind) {
			panic(mergeFail{"func"})
		}
		if len(x.Bind) == 0 {
			return x
		}
		bs := make([]Value, len(x.Bind))
		for i := range bs {
			bs[i] = e.mergeValue(c, x.Bind[i], y.Bind[i])
		}
		return FuncV{Fn: x.Fn, Bind: bs}
	case TupleV:
		y, ok := b.(TupleV)
		if !ok || len(x) != len(y) {
			panic(mergeFail{"tuple"})
		}
		out := make(TupleV, len(x))
		for i := range x {
			out[i] = e.mergeValue(c, x[i], y[i])
		}
		return out
	case ChanV:
		y, ok := b.(ChanV)
		if !ok || x.Obj != y.Obj {
			panic(mergeFail{"chan"})
		}
		return x
	case OpaqueV:
		y, ok := b.(OpaqueV)
		if !ok || x.Tag != y.Tag {
			panic(mergeFail{"opaque"})
		}
		return x
	case MapIter:
		y, ok := b.(MapIter)
		if !ok || x.Obj != y.Obj || x.Pos != y.Pos {
			panic(mergeFail{"iter"})
		}
		return x
	case nil:
		if b == nil {
			return nil
		}
	}
	panic(mergeFail{fmt.Sprintf("%T vs %T", a, b)})
}

// sameValue is a cheap identity check (used to avoid copying on merge).
func sameValue(a, b Value) bool {
	switch x := a.(type) {
	case BV:
		y, ok := b.(BV)
		return ok && x.T == y.T
	case BoolV:
		y, ok := b.(BoolV)
		return ok && x.T == y.T
	case Ptr:
		y, ok := b.(Ptr)
		return ok && x.Obj == y.Obj && samePath(x.Path, y.Path) && x.Fn == y.Fn
	case StringV:
		y, ok := b.(StringV)
		return ok && x.C == y.C && x.Off == y.Off && x.Len == y.Len
	case SliceV:
		y, ok := b.(SliceV)
		return ok && x.Base.Obj == y.Base.Obj && samePath(x.Base.Path, y.Base.Path) && x.Off == y.Off && x.Len == y.Len && x.Cap == y.Cap
	case ByteBuf:
		y, ok := b.(ByteBuf)
		return ok && x.C == y.C && x.Len == y.Len
	case ByteArr:
		y, ok := b.(ByteArr)
		if !ok || len(x.E) != len(y.E) {
			return false
		}
		for i := range x.E {
			if x.E[i] != y.E[i] {
				return false
			}
		}
		return true
	case StructV:
		y, ok := b.(StructV)
		if !ok || len(x.F) != len(y.F) {
			return false
		}
		for i := range x.F {
			if !sameValue(x.F[i], y.F[i]) {
				return false
			}
		}
		return true
	case ArrayV:
		y, ok := b.(ArrayV)
		if !ok || len(x.E) != len(y.E) {
			return false
		}
		for i := range x.E {
			if !sameValue(x.E[i], y.E[i]) {
				return false
			}
		}
		return true
	case IfaceV:
		y, ok := b.(IfaceV)
		if !ok {
			return false
		}
		if x.T == nil || y.T == nil {
			return x.T == nil && y.T == nil
		}
		return types.Identical(x.T, y.T) && sameValue(x.V, y.V)
	case MapV:
		y, ok := b.(MapV)
		return ok && x.Obj == y.Obj
	case MapObj:
		y, ok := b.(MapObj)
		if !ok || len(x.Keys) != len(y.Keys) {
			return false
		}
		for i := range x.Keys {
			if !sameValue(x.Keys[i], y.Keys[i]) || !sameValue(x.Vals[i], y.Vals[i]) {
				return false
			}
		}
		return true
	case FuncV:
		y, ok := b.(FuncV)
		if !ok || x.Fn != y.Fn || x.Nil != y.Nil || len(x.Bind) != len(y.Bind) {
			return false
		}
		for i := range x.Bind {
			if !sameValue(x.Bind[i], y.Bind[i]) {
				return false
			}
		}
		return true
	case TupleV:
		y, ok := b.(TupleV)
		if !ok || len(x) != len(y) {
			return false
		}
		for i := range x {
			if !sameValue(x[i], y[i]) {
				return false
			}
		}
		return true
	case ChanV:
		y, ok := b.(ChanV)
		return ok && x.Obj == y.Obj
	case OpaqueV:
		y, ok := b.(OpaqueV)
		return ok && x.Tag == y.Tag
	case MapIter:
		y, ok := b.(MapIter)
		return ok && x.Obj == y.Obj && x.Pos == y.Pos
	case nil:
		return b == nil
	}
	return false
}
