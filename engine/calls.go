package main

import (
	"go/types"

	"golang.org/x/tools/go/ssa"
)

// resolveCall evaluates the callee and arguments of a call. Returns nil fv for nil-interface invoke.
func (e *Exec) resolveCall(st *State, fr *Frame, c *ssa.CallCommon) (Value, []Value) {
	var args []Value
	if c.IsInvoke() {
		recv := e.val(st, fr, c.Value).(IfaceV)
		if recv.T == nil {
			return nil, nil
		}
		fn := e.methodFor(recv.T, c.Method)
		args = append(args, recv.V)
		for _, a := range c.Args {
			args = append(args, e.val(st, fr, a))
		}
		return FuncV{Fn: fn}, args
	}
	for _, a := range c.Args {
		args = append(args, e.val(st, fr, a))
	}
	if b, ok := c.Value.(*ssa.Builtin); ok {
		return builtinV{b, c}, args
	}
	return e.val(st, fr, c.Value), args
}

type builtinV struct {
	b *ssa.Builtin
	c *ssa.CallCommon
}

func (e *Exec) callInstr(st *State, fr *Frame, x *ssa.Call) []stepOut {
	fv, args := e.resolveCall(st, fr, &x.Call)
	if fv == nil {
		return []stepOut{e.panicOut(st, fr, "nil pointer dereference (method call on nil interface) at "+e.pos(x))}
	}
	if b, ok := fv.(builtinV); ok {
		return e.builtin(st, fr, x, b, args)
	}
	outs := e.callValue(st, fv, args, fr.depth+1)
	var res []stepOut
	for i, o := range outs {
		f2 := fr
		if i < len(outs)-1 {
			f2 = fr.fork()
		}
		if o.panicked {
			res = append(res, stepOut{st: o.st, fr: f2, panicked: true})
			continue
		}
		switch len(o.rets) {
		case 0:
		case 1:
			f2.locals[x] = o.rets[0]
		default:
			f2.locals[x] = TupleV(o.rets)
		}
		res = append(res, stepOut{st: o.st, fr: f2})
	}
	return res
}

func (e *Exec) lenOf(st *State, v Value) *Term {
	tc := e.tc
	switch x := v.(type) {
	case SliceV:
		return x.Len
	case StringV:
		return x.Len
	case MapV:
		if x.Obj < 0 {
			return tc.Int(0)
		}
		return tc.Int(int64(len(st.heap[x.Obj].(MapObj).Keys)))
	case ByteArr:
		return tc.Int(int64(len(x.E)))
	case ArrayV:
		return tc.Int(int64(len(x.E)))
	case ChanV:
		if x.Obj < 0 {
			return tc.Int(0)
		}
		q, _ := st.heap[x.Obj].(ArrayV)
		return tc.Int(int64(len(q.E)))
	case Ptr: // *array
		switch c := e.load(st, x).(type) {
		case ByteArr:
			return tc.Int(int64(len(c.E)))
		case ArrayV:
			return tc.Int(int64(len(c.E)))
		case ByteBuf:
			return c.Len
		}
	case ByteBuf:
		return x.Len
	}
	panic(unsupported("len of %T", v))
}

func (e *Exec) builtin(st *State, fr *Frame, x *ssa.Call, b builtinV, args []Value) []stepOut {
	tc := e.tc
	switch b.b.Name() {
	case "len":
		fr.locals[x] = BV{e.lenOf(st, args[0])}
		return one(st, fr)
	case "cap":
		switch v := args[0].(type) {
		case SliceV:
			fr.locals[x] = BV{v.Cap}
		default:
			fr.locals[x] = BV{e.lenOf(st, args[0])}
		}
		return one(st, fr)
	case "copy":
		dst := args[0].(SliceV)
		n := e.copyInto(st, dst, args[1])
		fr.locals[x] = BV{n}
		return one(st, fr)
	case "append":
		return e.appendBuiltin(st, fr, x, args)
	case "panic":
		st.panicVal = args[0]
		st.panicMsg = "explicit panic at " + e.pos(x)
		return []stepOut{{st: st, fr: fr, panicked: true}}
	case "recover":
		if st.pending != nil {
			fr.locals[x] = st.pending
			if _, ok := st.pending.(IfaceV); !ok {
				fr.locals[x] = IfaceV{T: types.Typ[types.String], V: st.pending}
			}
			st.pending = nil
			st.panicMsg = ""
		} else {
			fr.locals[x] = IfaceV{}
		}
		return one(st, fr)
	case "print", "println":
		return one(st, fr)
	case "delete":
		return e.mapDelete(st, fr, args[0].(MapV), args[1])
	case "min", "max":
		r := args[0].(BV).T
		signed := isSigned(b.c.Args[0].Type())
		for _, a := range args[1:] {
			t := a.(BV).T
			var lt *Term
			if signed {
				lt = tc.Slt(t, r)
			} else {
				lt = tc.Ult(t, r)
			}
			if b.b.Name() == "max" {
				lt = tc.Not(tc.Or(lt, tc.Eq(t, r)))
			}
			r = tc.Ite(lt, t, r)
		}
		fr.locals[x] = BV{r}
		return one(st, fr)
	case "clear":
		switch v := args[0].(type) {
		case MapV:
			if v.Obj >= 0 {
				st.heap[v.Obj] = MapObj{}
			}
			return one(st, fr)
		case SliceV:
			if v.Base.IsNil() || (v.Len.konst && v.Len.cv == 0) {
				return one(st, fr)
			}
			switch c := e.load(st, v.Base).(type) {
			case ArrayV:
				if !v.Len.konst || !v.Off.konst {
					panic(unsupported("clear of non-byte slice with symbolic bounds"))
				}
				el := append([]Value(nil), c.E...)
				z := e.zero(b.c.Args[0].Type().Underlying().(*types.Slice).Elem())
				for i := 0; i < int(v.Len.cv); i++ {
					el[int(v.Off.cv)+i] = z
				}
				e.store(st, v.Base, ArrayV{el})
			default:
				zeros := SliceV{Base: Ptr{Obj: e.alloc(st, ByteBuf{C: czero, Len: v.Len})}, Off: tc.Int(0), Len: v.Len, Cap: v.Len}
				e.copyInto(st, v, zeros)
			}
			return one(st, fr)
		}
	case "SliceData":
		sl := args[0].(SliceV)
		if sl.Base.IsNil() {
			fr.locals[x] = nilPtr
		} else {
			fr.locals[x] = sl.Base.With(PathElem{Field: -1, Idx: sl.Off})
		}
		return one(st, fr)
	case "String":
		p := args[0].(Ptr)
		n := e.idx64(args[1].(BV), b.c.Args[1].Type())
		if p.IsNil() {
			fr.locals[x] = StringV{C: czero, Off: tc.Int(0), Len: tc.Int(0)}
			return one(st, fr)
		}
		last := p.Path[len(p.Path)-1]
		if last.Idx == nil {
			panic(unsupported("unsafe.String of non-element pointer"))
		}
		base := Ptr{Obj: p.Obj, Path: p.Path[:len(p.Path)-1]}
		fr.locals[x] = StringV{C: e.containerContent(st, base), Off: last.Idx, Len: n}
		return one(st, fr)
	case "StringData":
		s := args[0].(StringV)
		sl := e.stringToSlice(st, s)
		fr.locals[x] = sl.Base.With(PathElem{Field: -1, Idx: tc.Int(0)})
		return one(st, fr)
	case "Slice":
		p := args[0].(Ptr)
		n := e.idx64(args[1].(BV), b.c.Args[1].Type())
		if p.IsNil() {
			fr.locals[x] = SliceV{Base: nilPtr, Off: tc.Int(0), Len: tc.Int(0), Cap: tc.Int(0)}
			return one(st, fr)
		}
		last := p.Path[len(p.Path)-1]
		if last.Idx == nil {
			panic(unsupported("unsafe.Slice of non-element pointer"))
		}
		fr.locals[x] = SliceV{Base: Ptr{Obj: p.Obj, Path: p.Path[:len(p.Path)-1]}, Off: last.Idx, Len: n, Cap: n}
		return one(st, fr)
	case "ssa:wrapnilchk":
		p := args[0].(Ptr)
		if p.IsNil() {
			return []stepOut{e.panicOut(st, fr, "nil pointer dereference (wrapper) at "+e.pos(x))}
		}
		fr.locals[x] = p
		return one(st, fr)
	}
	panic(unsupported("builtin %s", b.b.Name()))
}

// copyInto implements copy(dst, src) for src a slice or string; returns the count term.
func (e *Exec) copyInto(st *State, dst SliceV, srcv Value) *Term {
	tc := e.tc
	var srcLen, srcOff *Term
	var srcC Content
	var srcSlice *SliceV
	switch s := srcv.(type) {
	case StringV:
		srcLen, srcOff, srcC = s.Len, s.Off, s.C
	case SliceV:
		srcLen, srcOff = s.Len, s.Off
		srcSlice = &s
	default:
		panic(unsupported("copy from %T", srcv))
	}
	n := tc.Ite(tc.Ult(srcLen, dst.Len), srcLen, dst.Len)
	if n.konst && n.cv == 0 {
		return n
	}
	if dst.Base.IsNil() {
		return tc.Int(0)
	}
	dcont := e.load(st, dst.Base)
	switch dc := dcont.(type) {
	case ByteBuf:
		if srcC == nil {
			if srcSlice.Base.IsNil() {
				return tc.Int(0)
			}
			srcC = e.containerContent(st, srcSlice.Base)
		}
		e.store(st, dst.Base, ByteBuf{C: e.copyContent(dc.C, dst.Off, n, srcC, srcOff), Len: dc.Len})
		return n
	case ByteArr:
		if srcC == nil {
			if srcSlice.Base.IsNil() {
				return tc.Int(0)
			}
			srcC = e.containerContent(st, srcSlice.Base)
		}
		el := make([]*Term, len(dc.E))
		for j := range el {
			jt := tc.Int(int64(j))
			in := tc.And(tc.Ule(dst.Off, jt), tc.Ult(jt, tc.Add(dst.Off, n)))
			if in.IsFalse() {
				el[j] = dc.E[j]
				continue
			}
			sv := e.sel(srcC, tc.Add(tc.Sub(jt, dst.Off), srcOff))
			el[j] = tc.Ite(in, sv, dc.E[j])
		}
		e.store(st, dst.Base, ByteArr{el})
		return n
	case ArrayV:
		if srcSlice == nil {
			panic(unsupported("copy string into non-byte slice"))
		}
		if !n.konst || !dst.Off.konst || !srcOff.konst {
			panic(unsupported("copy of non-byte slices with symbolic bounds"))
		}
		if srcSlice.Base.IsNil() {
			return tc.Int(0)
		}
		sc, ok := e.load(st, srcSlice.Base).(ArrayV)
		if !ok {
			panic(unsupported("copy between different container kinds"))
		}
		el := append([]Value(nil), dc.E...)
		tmp := make([]Value, n.cv)
		for i := 0; i < int(n.cv); i++ {
			tmp[i] = sc.E[int(srcOff.cv)+i]
		}
		for i := 0; i < int(n.cv); i++ {
			el[int(dst.Off.cv)+i] = tmp[i]
		}
		e.store(st, dst.Base, ArrayV{el})
		return n
	}
	panic(unsupported("copy into %T", dcont))
}

// copyContent returns prev with n bytes at dstOff replaced by src[srcOff:srcOff+n]; folds constants.
func (e *Exec) copyContent(prev Content, dstOff, n *Term, src Content, srcOff *Term) Content {
	tc := e.tc
	if n.konst && n.cv <= 64 && dstOff.konst {
		c := prev
		for i := uint64(0); i < n.cv; i++ {
			c = &CStore{Prev: c, Idx: tc.Int(int64(dstOff.cv + i)), Val: e.sel(src, tc.Add(srcOff, tc.Int(int64(i))))}
		}
		return c
	}
	return &CCopy{Prev: prev, DstOff: dstOff, N: n, Src: src, SrcOff: srcOff}
}

func (e *Exec) appendBuiltin(st *State, fr *Frame, x *ssa.Call, args []Value) []stepOut {
	tc := e.tc
	dst := args[0].(SliceV)
	elemT := x.Call.Args[0].Type().Underlying().(*types.Slice).Elem()
	var addLen *Term
	switch s := args[1].(type) {
	case StringV:
		addLen = s.Len
	case SliceV:
		addLen = s.Len
	default:
		panic(unsupported("append of %T", args[1]))
	}
	if addLen.konst && addLen.cv == 0 {
		fr.locals[x] = dst
		return one(st, fr)
	}
	newLen := tc.Add(dst.Len, addLen)
	if isByteType(elemT) {
		fits := tc.Ule(newLen, dst.Cap)
		if dst.Base.IsNil() {
			fits = tc.False()
		}
		doFit := func(s *State, f *Frame) stepOut {
			d2 := SliceV{Base: dst.Base, Off: tc.Add(dst.Off, dst.Len), Len: addLen, Cap: tc.Sub(dst.Cap, dst.Len)}
			e.copyInto(s, d2, args[1])
			f.locals[x] = SliceV{Base: dst.Base, Off: dst.Off, Len: newLen, Cap: dst.Cap}
			return stepOut{st: s, fr: f}
		}
		doGrow := func(s *State, f *Frame) stepOut {
			// new capacity: unspecified growth; model as exactly newLen rounded by a fresh slack >= 0 would be
			// more general, but Go code must not depend on it; use newLen*2 bounded model: cap = newLen.
			var c Content = czero
			if !dst.Base.IsNil() {
				c = e.copyContent(czero, tc.Int(0), dst.Len, e.containerContent(s, dst.Base), dst.Off)
			}
			id := e.alloc(s, ByteBuf{C: c, Len: newLen})
			d2 := SliceV{Base: Ptr{Obj: id}, Off: dst.Len, Len: addLen, Cap: addLen}
			e.copyInto(s, d2, args[1])
			f.locals[x] = SliceV{Base: Ptr{Obj: id}, Off: tc.Int(0), Len: newLen, Cap: newLen}
			return stepOut{st: s, fr: f}
		}
		if fits.IsTrue() {
			return []stepOut{doFit(st, fr)}
		}
		if fits.IsFalse() {
			return []stepOut{doGrow(st, fr)}
		}
		f0 := e.feasible(st, fits)
		f1 := e.feasible(st, tc.Not(fits))
		switch {
		case f0 && f1:
			s2, fr2 := st.fork(), fr.fork()
			st.assume(fits)
			s2.assume(tc.Not(fits))
			e.stats.Forks++
			return []stepOut{doFit(st, fr), doGrow(s2, fr2)}
		case f0:
			return []stepOut{doFit(st, fr)}
		default:
			return []stepOut{doGrow(st, fr)}
		}
	}
	// non-byte elements: concrete lengths required
	src, ok := args[1].(SliceV)
	if !ok {
		panic(unsupported("append string to non-byte slice"))
	}
	if !dst.Len.konst || !dst.Off.konst || !dst.Cap.konst || !src.Len.konst || !src.Off.konst {
		panic(unsupported("append to non-byte slice with symbolic bounds at %s", e.pos(x)))
	}
	sc := e.load(st, src.Base).(ArrayV)
	add := make([]Value, src.Len.cv)
	for i := range add {
		add[i] = sc.E[int(src.Off.cv)+i]
	}
	if !dst.Base.IsNil() && newLen.cv <= dst.Cap.cv {
		dc := e.load(st, dst.Base).(ArrayV)
		el := append([]Value(nil), dc.E...)
		for i, v := range add {
			el[int(dst.Off.cv+dst.Len.cv)+i] = v
		}
		e.store(st, dst.Base, ArrayV{el})
		fr.locals[x] = SliceV{Base: dst.Base, Off: dst.Off, Len: newLen, Cap: dst.Cap}
		return one(st, fr)
	}
	var el []Value
	if !dst.Base.IsNil() {
		dc := e.load(st, dst.Base).(ArrayV)
		el = append(el, dc.E[dst.Off.cv:dst.Off.cv+dst.Len.cv]...)
	}
	el = append(el, add...)
	// growth slack: double capacity like the runtime roughly does, zero-filled
	ncap := len(el)
	if ncap < 2*int(dst.Cap.cv) && dst.Cap.cv < 256 {
		ncap = 2 * int(dst.Cap.cv)
	}
	z := e.zero(elemT)
	for len(el) < ncap {
		el = append(el, z)
	}
	id := e.alloc(st, ArrayV{el})
	fr.locals[x] = SliceV{Base: Ptr{Obj: id}, Off: tc.Int(0), Len: newLen, Cap: tc.Int(int64(ncap))}
	return one(st, fr)
}
