package main

// Hash-consed term DAG over bit-vectors, booleans and byte arrays, printed as
// SMT-LIB2. All Go integers are encoded as bit-vectors of their Go width.

import (
	"fmt"
	"math/bits"
	"strings"
)

type Term struct {
	id    int
	op    string
	args  []*Term
	w     int    // bit width; 0 = Bool; -1 = Array(BV64->BV8)
	cv    uint64 // constant value (bv const, bool const 0/1)
	konst bool
	name  string // for vars
	p1    int    // extract hi / extension amount
	p2    int    // extract lo
}

type TermCtx struct {
	tab   map[string]*Term
	all   []*Term
	nvars int
}

func NewTermCtx() *TermCtx { return &TermCtx{tab: map[string]*Term{}} }

func mask(w int) uint64 {
	if w >= 64 {
		return ^uint64(0)
	}
	return (uint64(1) << uint(w)) - 1
}

func (c *TermCtx) mk(op string, w int, args []*Term, cv uint64, konst bool, name string, p1, p2 int) *Term {
	var sb strings.Builder
	sb.WriteString(op)
	fmt.Fprintf(&sb, "|%d|%d|%d|%d|%v|%s", w, cv, p1, p2, konst, name)
	for _, a := range args {
		fmt.Fprintf(&sb, ",%d", a.id)
	}
	k := sb.String()
	if t, ok := c.tab[k]; ok {
		return t
	}
	t := &Term{id: len(c.all), op: op, args: args, w: w, cv: cv, konst: konst, name: name, p1: p1, p2: p2}
	c.tab[k] = t
	c.all = append(c.all, t)
	return t
}

func (t *Term) IsConst() bool { return t.konst }
func (t *Term) IsTrue() bool  { return t.konst && t.w == 0 && t.cv == 1 }
func (t *Term) IsFalse() bool { return t.konst && t.w == 0 && t.cv == 0 }

// Signed value of a constant.
func (t *Term) SVal() int64 {
	if t.w >= 64 {
		return int64(t.cv)
	}
	v := t.cv
	if v&(1<<uint(t.w-1)) != 0 {
		v |= ^mask(t.w)
	}
	return int64(v)
}

func (c *TermCtx) BVConst(v uint64, w int) *Term {
	return c.mk("const", w, nil, v&mask(w), true, "", 0, 0)
}
func (c *TermCtx) Int(v int64) *Term { return c.BVConst(uint64(v), 64) }
func (c *TermCtx) BoolConst(b bool) *Term {
	if b {
		return c.mk("bconst", 0, nil, 1, true, "", 0, 0)
	}
	return c.mk("bconst", 0, nil, 0, true, "", 0, 0)
}
func (c *TermCtx) True() *Term  { return c.BoolConst(true) }
func (c *TermCtx) False() *Term { return c.BoolConst(false) }

func (c *TermCtx) Var(name string, w int) *Term {
	c.nvars++
	return c.mk("var", w, nil, 0, false, name, 0, 0)
}

// FreshVar makes a new variable with a unique suffix.
func (c *TermCtx) FreshVar(name string, w int) *Term {
	c.nvars++
	return c.mk("var", w, nil, 0, false, fmt.Sprintf("%s!%d", name, c.nvars), 0, 0)
}

func (c *TermCtx) ArrayVar(name string) *Term {
	return c.mk("var", -1, nil, 0, false, name, 0, 0)
}

func (c *TermCtx) Not(a *Term) *Term {
	if a.konst {
		return c.BoolConst(a.cv == 0)
	}
	if a.op == "not" {
		return a.args[0]
	}
	return c.mk("not", 0, []*Term{a}, 0, false, "", 0, 0)
}

func (c *TermCtx) And(a, b *Term) *Term {
	if a.konst {
		if a.cv == 0 {
			return a
		}
		return b
	}
	if b.konst {
		if b.cv == 0 {
			return b
		}
		return a
	}
	if a == b {
		return a
	}
	if (a.op == "not" && a.args[0] == b) || (b.op == "not" && b.args[0] == a) {
		return c.False()
	}
	return c.mk("and", 0, []*Term{a, b}, 0, false, "", 0, 0)
}

func (c *TermCtx) Or(a, b *Term) *Term {
	if a.konst {
		if a.cv == 1 {
			return a
		}
		return b
	}
	if b.konst {
		if b.cv == 1 {
			return b
		}
		return a
	}
	if a == b {
		return a
	}
	if (a.op == "not" && a.args[0] == b) || (b.op == "not" && b.args[0] == a) {
		return c.True()
	}
	return c.mk("or", 0, []*Term{a, b}, 0, false, "", 0, 0)
}

func (c *TermCtx) AndN(ts []*Term) *Term {
	r := c.True()
	for _, t := range ts {
		r = c.And(r, t)
	}
	return r
}

func (c *TermCtx) Implies(a, b *Term) *Term { return c.Or(c.Not(a), b) }

func (c *TermCtx) Ite(cond, a, b *Term) *Term {
	if cond.konst {
		if cond.cv == 1 {
			return a
		}
		return b
	}
	if a == b {
		return a
	}
	if a.w != b.w {
		panic(fmt.Sprintf("ite width mismatch %d %d", a.w, b.w))
	}
	if a.w == 0 {
		if a.konst && b.konst {
			if a.cv == 1 {
				return cond
			}
			return c.Not(cond)
		}
		if a.konst {
			if a.cv == 1 {
				return c.Or(cond, b)
			}
			return c.And(c.Not(cond), b)
		}
		if b.konst {
			if b.cv == 1 {
				return c.Or(c.Not(cond), a)
			}
			return c.And(cond, a)
		}
	}
	// ite(c, x, ite(c, y, z)) = ite(c, x, z)
	if b.op == "ite" && b.args[0] == cond {
		return c.Ite(cond, a, b.args[2])
	}
	if a.op == "ite" && a.args[0] == cond {
		return c.Ite(cond, a.args[1], b)
	}
	return c.mk("ite", a.w, []*Term{cond, a, b}, 0, false, "", 0, 0)
}

func (c *TermCtx) Eq(a, b *Term) *Term {
	if a == b {
		return c.True()
	}
	if a.w != b.w {
		panic(fmt.Sprintf("eq width mismatch %d %d (%s %s)", a.w, b.w, a.op, b.op))
	}
	if a.konst && b.konst {
		return c.BoolConst(a.cv == b.cv)
	}
	if a.w == 0 {
		if a.konst {
			if a.cv == 1 {
				return b
			}
			return c.Not(b)
		}
		if b.konst {
			if b.cv == 1 {
				return a
			}
			return c.Not(a)
		}
	}
	// eq(ite(c,k1,k2), k) with constants
	if b.konst && a.op == "ite" && a.args[1].konst && a.args[2].konst {
		return c.Ite(a.args[0], c.BoolConst(a.args[1].cv == b.cv), c.BoolConst(a.args[2].cv == b.cv))
	}
	if a.konst && b.op == "ite" && b.args[1].konst && b.args[2].konst {
		return c.Ite(b.args[0], c.BoolConst(b.args[1].cv == a.cv), c.BoolConst(b.args[2].cv == a.cv))
	}
	if a.id > b.id {
		a, b = b, a
	}
	return c.mk("=", 0, []*Term{a, b}, 0, false, "", 0, 0)
}

func (c *TermCtx) Ne(a, b *Term) *Term { return c.Not(c.Eq(a, b)) }

func sext64(v uint64, w int) int64 {
	if w >= 64 {
		return int64(v)
	}
	if v&(1<<uint(w-1)) != 0 {
		v |= ^mask(w)
	}
	return int64(v)
}

// Bin builds a binary bit-vector operation. op is an SMT-LIB name.
func (c *TermCtx) Bin(op string, a, b *Term) *Term {
	if a.w != b.w {
		panic(fmt.Sprintf("bin %s width mismatch %d %d", op, a.w, b.w))
	}
	w := a.w
	if a.konst && b.konst {
		x, y := a.cv, b.cv
		var r uint64
		ok := true
		switch op {
		case "bvadd":
			r = x + y
		case "bvsub":
			r = x - y
		case "bvmul":
			r = x * y
		case "bvand":
			r = x & y
		case "bvor":
			r = x | y
		case "bvxor":
			r = x ^ y
		case "bvshl":
			if y >= uint64(w) {
				r = 0
			} else {
				r = x << y
			}
		case "bvlshr":
			if y >= uint64(w) {
				r = 0
			} else {
				r = x >> y
			}
		case "bvashr":
			sx := sext64(x, w)
			if y >= uint64(w) {
				if sx < 0 {
					r = ^uint64(0)
				} else {
					r = 0
				}
			} else {
				r = uint64(sx >> y)
			}
		case "bvudiv":
			if y == 0 {
				r = mask(w)
			} else {
				r = x / y
			}
		case "bvurem":
			if y == 0 {
				r = x
			} else {
				r = x % y
			}
		case "bvsdiv":
			sx, sy := sext64(x, w), sext64(y, w)
			if sy == 0 {
				ok = false
			} else if sy == -1 {
				r = uint64(-sx)
			} else {
				r = uint64(sx / sy)
			}
		case "bvsrem":
			sx, sy := sext64(x, w), sext64(y, w)
			if sy == 0 {
				ok = false
			} else if sy == -1 {
				r = 0
			} else {
				r = uint64(sx % sy)
			}
		default:
			ok = false
		}
		if ok {
			return c.BVConst(r, w)
		}
	}
	switch op {
	case "bvadd":
		if a.konst && a.cv == 0 {
			return b
		}
		if b.konst && b.cv == 0 {
			return a
		}
		// (x + k1) + k2 -> x + (k1+k2)
		if b.konst && a.op == "bvadd" && a.args[1].konst {
			return c.Bin("bvadd", a.args[0], c.BVConst(a.args[1].cv+b.cv, w))
		}
		if a.konst {
			a, b = b, a
		}
	case "bvsub":
		if b.konst && b.cv == 0 {
			return a
		}
		if a == b {
			return c.BVConst(0, w)
		}
		if b.konst {
			return c.Bin("bvadd", a, c.BVConst(-b.cv, w))
		}
		// (x + y) - y -> x ; (x + y) - x -> y
		if a.op == "bvadd" {
			if a.args[1] == b {
				return a.args[0]
			}
			if a.args[0] == b {
				return a.args[1]
			}
		}
	case "bvmul":
		if a.konst && a.cv == 1 {
			return b
		}
		if b.konst && b.cv == 1 {
			return a
		}
		if (a.konst && a.cv == 0) || (b.konst && b.cv == 0) {
			return c.BVConst(0, w)
		}
	case "bvand":
		if (a.konst && a.cv == 0) || (b.konst && b.cv == 0) {
			return c.BVConst(0, w)
		}
		if a.konst && a.cv == mask(w) {
			return b
		}
		if b.konst && b.cv == mask(w) {
			return a
		}
		if a == b {
			return a
		}
	case "bvor":
		if a.konst && a.cv == 0 {
			return b
		}
		if b.konst && b.cv == 0 {
			return a
		}
		if a == b {
			return a
		}
	case "bvxor":
		if a.konst && a.cv == 0 {
			return b
		}
		if b.konst && b.cv == 0 {
			return a
		}
	case "bvshl", "bvlshr", "bvashr":
		if b.konst && b.cv == 0 {
			return a
		}
	}
	return c.mk(op, w, []*Term{a, b}, 0, false, "", 0, 0)
}

func (c *TermCtx) Add(a, b *Term) *Term { return c.Bin("bvadd", a, b) }
func (c *TermCtx) Sub(a, b *Term) *Term { return c.Bin("bvsub", a, b) }

func (c *TermCtx) BvNot(a *Term) *Term {
	if a.konst {
		return c.BVConst(^a.cv, a.w)
	}
	return c.mk("bvnot", a.w, []*Term{a}, 0, false, "", 0, 0)
}
func (c *TermCtx) BvNeg(a *Term) *Term {
	if a.konst {
		return c.BVConst(-a.cv, a.w)
	}
	return c.mk("bvneg", a.w, []*Term{a}, 0, false, "", 0, 0)
}

// Cmp builds a comparison (bvult bvule bvslt bvsle ...).
func (c *TermCtx) Cmp(op string, a, b *Term) *Term {
	if a.w != b.w {
		panic(fmt.Sprintf("cmp %s width mismatch %d %d", op, a.w, b.w))
	}
	switch op {
	case "bvugt":
		return c.Cmp("bvult", b, a)
	case "bvuge":
		return c.Cmp("bvule", b, a)
	case "bvsgt":
		return c.Cmp("bvslt", b, a)
	case "bvsge":
		return c.Cmp("bvsle", b, a)
	}
	if a.konst && b.konst {
		switch op {
		case "bvult":
			return c.BoolConst(a.cv < b.cv)
		case "bvule":
			return c.BoolConst(a.cv <= b.cv)
		case "bvslt":
			return c.BoolConst(sext64(a.cv, a.w) < sext64(b.cv, b.w))
		case "bvsle":
			return c.BoolConst(sext64(a.cv, a.w) <= sext64(b.cv, b.w))
		}
	}
	if a == b {
		return c.BoolConst(op == "bvule" || op == "bvsle")
	}
	if op == "bvult" && b.konst && b.cv == 0 {
		return c.False()
	}
	if op == "bvule" && a.konst && a.cv == 0 {
		return c.True()
	}
	// zero-extended small value compared with constant
	if a.op == "zext" && b.konst {
		iw := a.args[0].w
		if b.cv > mask(iw) {
			switch op {
			case "bvult", "bvule", "bvslt", "bvsle":
				if op[2] == 'u' || a.w > iw {
					if op[2] == 's' && sext64(b.cv, b.w) < 0 {
						return c.False()
					}
					return c.True()
				}
			}
		}
	}
	// ite of constants compared
	if a.op == "ite" && a.args[1].konst && a.args[2].konst && b.konst {
		return c.Ite(a.args[0], c.Cmp(op, a.args[1], b), c.Cmp(op, a.args[2], b))
	}
	if b.op == "ite" && b.args[1].konst && b.args[2].konst && a.konst {
		return c.Ite(b.args[0], c.Cmp(op, a, b.args[1]), c.Cmp(op, a, b.args[2]))
	}
	return c.mk(op, 0, []*Term{a, b}, 0, false, "", 0, 0)
}

func (c *TermCtx) Ult(a, b *Term) *Term { return c.Cmp("bvult", a, b) }
func (c *TermCtx) Ule(a, b *Term) *Term { return c.Cmp("bvule", a, b) }
func (c *TermCtx) Slt(a, b *Term) *Term { return c.Cmp("bvslt", a, b) }
func (c *TermCtx) Sle(a, b *Term) *Term { return c.Cmp("bvsle", a, b) }

func (c *TermCtx) Extract(hi, lo int, a *Term) *Term {
	if lo == 0 && hi == a.w-1 {
		return a
	}
	w := hi - lo + 1
	if a.konst {
		return c.BVConst(a.cv>>uint(lo), w)
	}
	switch a.op {
	case "zext":
		iw := a.args[0].w
		if hi < iw {
			return c.Extract(hi, lo, a.args[0])
		}
		if lo >= iw {
			return c.BVConst(0, w)
		}
	case "sext":
		iw := a.args[0].w
		if hi < iw {
			return c.Extract(hi, lo, a.args[0])
		}
	case "extract":
		return c.Extract(hi+a.p2, lo+a.p2, a.args[0])
	case "concat":
		lw := a.args[1].w
		if hi < lw {
			return c.Extract(hi, lo, a.args[1])
		}
		if lo >= lw {
			return c.Extract(hi-lw, lo-lw, a.args[0])
		}
	case "bvor", "bvand", "bvxor":
		return c.Bin(a.op, c.Extract(hi, lo, a.args[0]), c.Extract(hi, lo, a.args[1]))
	case "bvshl":
		if a.args[1].konst {
			k := int(a.args[1].cv)
			if lo >= k {
				return c.Extract(hi-k, lo-k, a.args[0])
			}
			if hi < k {
				return c.BVConst(0, w)
			}
		}
	case "bvlshr":
		if a.args[1].konst {
			k := int(a.args[1].cv)
			if hi+k < a.w {
				return c.Extract(hi+k, lo+k, a.args[0])
			}
			if lo+k >= a.w {
				return c.BVConst(0, w)
			}
		}
	case "ite":
		if a.args[1].konst || a.args[2].konst {
			return c.Ite(a.args[0], c.Extract(hi, lo, a.args[1]), c.Extract(hi, lo, a.args[2]))
		}
	}
	return c.mk("extract", w, []*Term{a}, 0, false, "", hi, lo)
}

func (c *TermCtx) ZExt(a *Term, w int) *Term {
	if w == a.w {
		return a
	}
	if w < a.w {
		return c.Extract(w-1, 0, a)
	}
	if a.konst {
		return c.BVConst(a.cv, w)
	}
	if a.op == "zext" {
		return c.ZExt(a.args[0], w)
	}
	if a.op == "ite" && (a.args[1].konst || a.args[2].konst) {
		return c.Ite(a.args[0], c.ZExt(a.args[1], w), c.ZExt(a.args[2], w))
	}
	return c.mk("zext", w, []*Term{a}, 0, false, "", w-a.w, 0)
}

func (c *TermCtx) SExt(a *Term, w int) *Term {
	if w == a.w {
		return a
	}
	if w < a.w {
		return c.Extract(w-1, 0, a)
	}
	if a.konst {
		return c.BVConst(uint64(sext64(a.cv, a.w)), w)
	}
	if a.op == "zext" { // sign bit known zero
		return c.ZExt(a.args[0], w)
	}
	if a.op == "ite" && (a.args[1].konst || a.args[2].konst) {
		return c.Ite(a.args[0], c.SExt(a.args[1], w), c.SExt(a.args[2], w))
	}
	return c.mk("sext", w, []*Term{a}, 0, false, "", w-a.w, 0)
}

func (c *TermCtx) Concat(hi, lo *Term) *Term {
	if hi.konst && lo.konst && hi.w+lo.w <= 64 {
		return c.BVConst(hi.cv<<uint(lo.w)|lo.cv, hi.w+lo.w)
	}
	return c.mk("concat", hi.w+lo.w, []*Term{hi, lo}, 0, false, "", 0, 0)
}

// Select reads byte idx (64-bit index) from array term arr.
func (c *TermCtx) Select(arr, idx *Term) *Term {
	return c.mk("select", 8, []*Term{arr, idx}, 0, false, "", 0, 0)
}

// --- printing ---------------------------------------------------------------

func sortStr(w int) string {
	switch {
	case w == 0:
		return "Bool"
	case w == -1:
		return "(Array (_ BitVec 64) (_ BitVec 8))"
	}
	return fmt.Sprintf("(_ BitVec %d)", w)
}

func smtName(s string) string { return "|" + strings.ReplaceAll(s, "|", "!") + "|" }

func (t *Term) ref() string {
	if t.konst {
		if t.w == 0 {
			if t.cv == 1 {
				return "true"
			}
			return "false"
		}
		if t.w%4 == 0 {
			return fmt.Sprintf("#x%0*x", t.w/4, t.cv)
		}
		return fmt.Sprintf("#b%0*b", t.w, t.cv)
	}
	if t.op == "var" {
		return smtName(t.name)
	}
	return fmt.Sprintf("t%d", t.id)
}

// body returns the SMT-LIB expression for a non-leaf term in terms of refs.
func (t *Term) body() string {
	switch t.op {
	case "extract":
		return fmt.Sprintf("((_ extract %d %d) %s)", t.p1, t.p2, t.args[0].ref())
	case "zext":
		return fmt.Sprintf("((_ zero_extend %d) %s)", t.p1, t.args[0].ref())
	case "sext":
		return fmt.Sprintf("((_ sign_extend %d) %s)", t.p1, t.args[0].ref())
	}
	var sb strings.Builder
	sb.WriteString("(")
	sb.WriteString(t.op)
	for _, a := range t.args {
		sb.WriteString(" ")
		sb.WriteString(a.ref())
	}
	sb.WriteString(")")
	return sb.String()
}

// Size returns the number of DAG nodes under t (for statistics).
func (t *Term) Size() int {
	seen := map[int]bool{}
	var rec func(*Term)
	rec = func(x *Term) {
		if seen[x.id] {
			return
		}
		seen[x.id] = true
		for _, a := range x.args {
			rec(a)
		}
	}
	rec(t)
	return len(seen)
}

var _ = bits.Len
