package main

import (
	"bufio"
	"bytes"
	"encoding/json"
	"fmt"
	"os"
	"os/exec"
	"path/filepath"
	"sort"
	"strings"
)

type ReplayResult struct {
	Failed        map[string]bool   // harness/assert -> reproduced?
	Dirs          map[string]string // harness/assert -> replay dir
	NoNative      map[string]bool   // harness has no native replay (engine-only stubs)
	TracesOK      int
	TracesSkipped int
	TraceMismatch int
	MismatchInfo  []string
	Replays       int
	Err           string
}

type replayCase struct {
	Name    string            `json:"Name"`
	Harness string            `json:"Harness"`
	Model   map[string]string `json:"Model"`
	expect  string
	obs     map[string]interface{}
}

const replayTestTmpl = `package PKG

import (
	"encoding/json"
	"fmt"
	"os"
	"testing"
	"time"
)

type vCase struct {
	Name    string
	Harness string
	Model   map[string]string
}

var vHarnessFns = map[string]func(){
REGISTRY}

func TestVerifReplay(t *testing.T) {
	data, err := os.ReadFile(os.Getenv("VERIF_CASES"))
	if err != nil {
		t.Fatal(err)
	}
	var cases []vCase
	if err := json.Unmarshal(data, &cases); err != nil {
		t.Fatal(err)
	}
	blocked := map[string]bool{}
	for _, c := range cases {
		fn := vHarnessFns[c.Harness]
		if fn == nil || blocked[c.Harness] {
			continue
		}
		vReset(c.Model)
		stopped := ""
		done := make(chan struct{})
		go func() {
			defer close(done)
			defer func() {
				if r := recover(); r != nil {
					if s, ok := r.(vStop); ok {
						stopped = s.why
					} else {
						stopped = fmt.Sprint("panic: ", r)
						vFailedIDs = append(vFailedIDs, "uncaught_panic")
					}
				}
			}()
			fn()
		}()
		select {
		case <-done:
		case <-time.After(1500 * time.Millisecond):
			// the real code waits for something only the running server provides (e.g. the unexported outbox consumer):
			// this harness cannot be run natively; its remaining cases are skipped
			blocked[c.Harness] = true
			bo, _ := json.Marshal(map[string]interface{}{"case": c.Name, "failed": []string{}, "observed": map[string]string{}, "stopped": "blocked natively"})
			fmt.Printf("VERIF-RESULT %s\n", bo)
			continue
		}
		out, _ := json.Marshal(map[string]interface{}{"case": c.Name, "failed": vFailedIDs, "observed": vObserved, "stopped": stopped})
		fmt.Printf("VERIF-RESULT %s\n", out)
	}
}
`

func modelToStrings(m map[string]interface{}) map[string]string {
	out := map[string]string{}
	for k, v := range m {
		switch x := v.(type) {
		case uint64:
			out[k] = fmt.Sprintf("%d", x)
		case string:
			out[k] = x
		default:
			out[k] = fmt.Sprint(x)
		}
	}
	return out
}

func noNativeHarness(name string) bool { return strings.Contains(name, "_sym") }

func replayAll(cfg *RunConfig, ld *Loaded, runs []*HarnessRun) *ReplayResult {
	rr := &ReplayResult{Failed: map[string]bool{}, Dirs: map[string]string{}, NoNative: map[string]bool{}}
	var cases []*replayCase
	for _, h := range runs {
		if noNativeHarness(h.Name) {
			rr.NoNative[h.Name] = true
			continue
		}
		for _, f := range h.Failures {
			cases = append(cases, &replayCase{Name: "fail:" + h.Name + "/" + f.ID, Harness: h.Name, Model: modelToStrings(f.Model), expect: f.ID})
		}
		if h.NonFaithful || h.EngineOnlyAPI {
			continue // paths that ran on engine-only stubs or engine-only harness functions cannot be compared with a native run
		}
		for i, tr := range h.Traces {
			cases = append(cases, &replayCase{Name: fmt.Sprintf("trace:%s/%d", h.Name, i), Harness: h.Name, Model: modelToStrings(tr.Model), obs: tr.Observed})
		}
	}
	if len(cases) == 0 {
		return rr
	}
	tmp, err := os.MkdirTemp("/var/tmp", "verif-replay-")
	if err != nil {
		rr.Err = err.Error()
		return rr
	}
	defer os.RemoveAll(tmp)
	results, err := runNative(cfg, ld, runs, cases, tmp)
	if err != nil {
		rr.Err = err.Error()
		fmt.Printf("replay error: %v\n", err)
		return rr
	}
	for _, c := range cases {
		res, ok := results[c.Name]
		if !ok {
			continue
		}
		rr.Replays++
		if c.expect != "" {
			key := c.Harness + "/" + c.expect
			repro := false
			for _, id := range res.Failed {
				if id == c.expect {
					repro = true
				}
			}
			if strings.Contains(res.Stopped, "assumption violated") || strings.Contains(res.Stopped, "blocked natively") {
				repro = false
			}
			rr.Failed[key] = repro
			// persist replay material
			dir := filepath.Join(cfg.VerifDir, "replays", cfg.Prop, sanitize(c.Harness+"_"+c.expect))
			os.MkdirAll(dir, 0o755)
			mb, _ := json.MarshalIndent(c.Model, "", " ")
			os.WriteFile(filepath.Join(dir, "model.json"), mb, 0o644)
			info := fmt.Sprintf("property %s\nharness %s\nfailed assertion %s\nnative replay reproduced: %v (failed ids natively: %v, stopped=%q)\n"+
				"re-run: /verif/run.sh %s %s   (the check regenerates and re-runs this replay)\n", cfg.Prop, c.Harness, c.expect, repro, res.Failed, res.Stopped, cfg.Prop, cfg.Tier)
			os.WriteFile(filepath.Join(dir, "README.txt"), []byte(info), 0o644)
			rr.Dirs[key] = dir
			continue
		}
		// trace comparison
		if strings.Contains(res.Stopped, "blocked natively") {
			rr.TracesSkipped++
			continue
		}
		if strings.Contains(res.Stopped, "assumption violated") {
			// the native run asked for an input the symbolic path never drew (e.g. a different number of reads
			// because the runtime grows buffers differently): not comparable, neither agreement nor disagreement
			rr.TracesSkipped++
			continue
		}
		okTrace := len(res.Failed) == 0 && res.Stopped == ""
		var diffs []string
		for k, v := range c.obs {
			want := fmt.Sprint(v)
			if got := res.Observed[k]; got != want {
				okTrace = false
				diffs = append(diffs, fmt.Sprintf("%s: engine=%s native=%s", k, trunc(want, 60), trunc(got, 60)))
			}
		}
		if len(res.Observed) != len(c.obs) {
			okTrace = false
			diffs = append(diffs, fmt.Sprintf("observation count engine=%d native=%d", len(c.obs), len(res.Observed)))
		}
		if okTrace {
			rr.TracesOK++
		} else {
			rr.TraceMismatch++
			rr.MismatchInfo = append(rr.MismatchInfo, fmt.Sprintf("%s failed=%v stopped=%q %s", c.Name, res.Failed, res.Stopped, strings.Join(diffs, ", ")))
		}
	}
	return rr
}

func trunc(s string, n int) string {
	if len(s) > n {
		return s[:n] + "..."
	}
	return s
}

func sanitize(s string) string {
	return strings.Map(func(r rune) rune {
		if r >= 'a' && r <= 'z' || r >= 'A' && r <= 'Z' || r >= '0' && r <= '9' || r == '_' || r == '-' {
			return r
		}
		return '_'
	}, s)
}

type nativeResult struct {
	Case     string            `json:"case"`
	Failed   []string          `json:"failed"`
	Observed map[string]string `json:"observed"`
	Stopped  string            `json:"stopped"`
}

func runNative(cfg *RunConfig, ld *Loaded, runs []*HarnessRun, cases []*replayCase, tmp string) (map[string]*nativeResult, error) {
	replace := map[string]string{}
	var pkgPaths []string
	byPkg := map[string][]string{}
	for _, h := range runs {
		short := h.Fn.Pkg.Pkg.Name()
		byPkg[short] = append(byPkg[short], h.Name)
	}
	for short, names := range byPkg {
		rel := harnessPkgDirs[short]
		sort.Strings(names)
		api := filepath.Join(tmp, short+"_api.go")
		os.WriteFile(api, []byte(strings.Replace(apiNative, "PKG", short, 1)), 0o644)
		replace[filepath.Join(repoDir, rel, "zz_verif_api.go")] = api
		for _, f := range ld.Files[short] {
			replace[filepath.Join(repoDir, rel, "zz_verif_"+filepath.Base(f))] = f
		}
		var reg strings.Builder
		for _, n := range names {
			fmt.Fprintf(&reg, "\t%q: %s,\n", n, n)
		}
		ts := strings.Replace(replayTestTmpl, "PKG", short, 1)
		ts = strings.Replace(ts, "REGISTRY", reg.String(), 1)
		tf := filepath.Join(tmp, short+"_replay_test.go")
		os.WriteFile(tf, []byte(ts), 0o644)
		replace[filepath.Join(repoDir, rel, "zz_verif_replay_test.go")] = tf
		pkgPaths = append(pkgPaths, "./"+rel)
	}
	ov, _ := json.Marshal(map[string]interface{}{"Replace": replace})
	ovf := filepath.Join(tmp, "overlay.json")
	os.WriteFile(ovf, ov, 0o644)
	cb, _ := json.Marshal(cases)
	cf := filepath.Join(tmp, "cases.json")
	os.WriteFile(cf, cb, 0o644)
	sort.Strings(pkgPaths)
	args := append([]string{"test", "-vet=off", "-count=1", "-run", "^TestVerifReplay$", "-timeout", "180s", "-v", "-overlay", ovf}, pkgPaths...)
	cmd := exec.Command("go", args...)
	cmd.Dir = repoDir
	cmd.Env = append(os.Environ(), "GOFLAGS=-mod=mod", "GOPROXY=off", "GOSUMDB=off", "GOTOOLCHAIN=local", "VERIF_CASES="+cf, "TMPDIR="+tmp)
	var out bytes.Buffer
	cmd.Stdout = &out
	cmd.Stderr = &out
	runErr := cmd.Run()
	results := map[string]*nativeResult{}
	sc := bufio.NewScanner(&out)
	sc.Buffer(make([]byte, 1<<20), 1<<26)
	var tail []string
	for sc.Scan() {
		line := sc.Text()
		if i := strings.Index(line, "VERIF-RESULT "); i >= 0 {
			var r nativeResult
			if err := json.Unmarshal([]byte(line[i+len("VERIF-RESULT "):]), &r); err == nil {
				results[r.Case] = &r
			}
			continue
		}
		tail = append(tail, line)
		if len(tail) > 30 {
			tail = tail[1:]
		}
	}
	if len(results) == 0 && runErr != nil {
		return nil, fmt.Errorf("go test failed: %v\n%s", runErr, strings.Join(tail, "\n"))
	}
	return results, nil
}
