package main

import (
	"encoding/json"
	"flag"
	"fmt"
	"os"
	"path/filepath"
	"runtime/debug"
	"sort"
	"strings"
	"sync"
	"time"

	"golang.org/x/tools/go/ssa"
)

// packages whose init functions are executed (pure data initialisers)
var initAllow = []string{
	"github.com/jhalter/mobius/hotline",
	"github.com/jhalter/mobius/internal/mobius",
	"io", "unicode/utf8", "bufio", "bytes", "strings", "encoding/binary", "path", "path/filepath",
	"internal/filepathlite", "internal/oserror", "io/fs", "slices", "sort", "math/bits", "strconv",
}

type RunConfig struct {
	VerifDir  string
	Prop      string
	Tier      string
	Only      string
	Verbose   bool
	Workers   int
	Solver    string
	TimeoutMs int
	NoMerge   bool
	NoReplay  bool
	XSolver   string
	Seed      int
}

func runHarness(ld *Loaded, fn *ssa.Function, cfg *RunConfig) (h *HarnessRun, e *Exec) {
	e = NewExec(ld.Prog, Options{NoMerge: cfg.NoMerge, Verbose: cfg.Verbose})
	h = &HarnessRun{Name: fn.Name(), Fn: fn, failSeen: map[string]bool{}, Asserts: map[string]*AssertStat{}, maxTraces: 3}
	e.h = h
	e.tier = cfg.Tier
	budget := 600 * time.Second
	if cfg.Tier == "thorough" {
		budget = 3000 * time.Second
	}
	e.deadline = time.Now().Add(budget)
	sol, err := NewSolver(e.tc, cfg.Solver, cfg.TimeoutMs)
	if err != nil {
		h.Inconclusive = append(h.Inconclusive, "cannot start solver: "+err.Error())
		return
	}
	e.sol = sol
	if cfg.Tier == "thorough" && cfg.XSolver != "" && cfg.XSolver != cfg.Solver {
		// the second opinion gets 20 s per obligation; no answer in that time means "not cross-checked", nothing else
		if xs, err := NewSolver(e.tc, cfg.XSolver, 20000); err == nil {
			e.xsol = xs
			defer xs.Close()
		}
	}
	sol.resetMode = os.Getenv("VERIF_RESET") != ""
	if p := os.Getenv("VERIF_SOLVERLOG"); p != "" {
		if f, err := os.Create(p + "." + fn.Name() + ".smt2"); err == nil {
			sol.log = f
		}
	}
	defer sol.Close()
	for _, p := range initAllow {
		e.initPkgs[p] = true
	}
	// overrides: functions named vStub_<pkg>_<Func> or vStub_<pkg>_<Type>_<Method> in harness packages
	// (only the stubs of the harness's own package apply: hotline and mobius harnesses keep separate environments)
	if sp := fn.Pkg; sp != nil {
		for n, m := range sp.Members {
			if f, ok := m.(*ssa.Function); ok && strings.HasPrefix(n, "vStub_") {
				e.stubFns = append(e.stubFns, f)
			}
		}
	}
	e.resolveStubs(ld)
	defer func() {
		if r := recover(); r != nil {
			where := ""
			if e.curInstr != nil {
				where = " [at " + e.pos(e.curInstr) + ": " + e.curInstr.String() + "]"
			}
			if n := len(e.stack); n > 0 {
				lo := n - 8
				if lo < 0 {
					lo = 0
				}
				where += " stack: " + strings.Join(e.stack[lo:], " > ")
			}
			if u, ok := r.(Unsupported); ok {
				h.Inconclusive = append(h.Inconclusive, u.Error()+where)
				return
			}
			h.Inconclusive = append(h.Inconclusive, fmt.Sprintf("engine panic: %v%s\n%s", r, where, debug.Stack()))
		}
	}()
	st := newState()
	for _, short := range []string{"hotline", "mobius"} {
		sp := ld.Pkgs[short]
		if sp == nil {
			continue
		}
		initFn := sp.Func("init")
		outs := e.callFunction(st, initFn, nil, nil, 0)
		if len(outs) != 1 || outs[0].panicked {
			panic(unsupported("package init of %s forked or panicked (%d outcomes)", short, len(outs)))
		}
		st = outs[0].st
	}
	st.pc = nil
	e.stats.Instrs = 0
	outs := e.callFunction(st, fn, nil, nil, 0)
	for k := range e.stats.Stubs {
		if strings.HasPrefix(k, "override:") {
			h.UsedOverrides = true // counterexamples are then reported without native confirmation
			if !nativeFaithful[strings.TrimPrefix(k, "override:")] {
				h.NonFaithful = true // and completed paths are not compared with a native run either
			}
		}
	}
	for _, o := range outs {
		e.finishPath(o.st, o.panicked)
	}
	// vacuity: every assert id must have been reached
	return
}

// nativeFaithful lists the replaced functions whose real implementation behaves, for what a harness can observe, like
// the stub: mutexes without contention, the wall-clock stamp, Mac-Roman conversion of the ASCII/e-acute strings the harnesses use. Paths that ran only
// on these are still compared with a native run (translator validation).
var nativeFaithful = map[string]bool{
	"(*sync.Mutex).Lock": true, "(*sync.Mutex).Unlock": true, "(*sync.RWMutex).Lock": true, "(*sync.RWMutex).Unlock": true,
	"(*sync.RWMutex).RLock": true, "(*sync.RWMutex).RUnlock": true,
	"github.com/jhalter/mobius/hotline.NewTime":    true,
	"(*golang.org/x/text/encoding.Decoder).String": true, "(*golang.org/x/text/encoding.Encoder).String": true,
}

// resolveStubs maps vStub_ names onto the functions they replace.
func (e *Exec) resolveStubs(ld *Loaded) {
	if len(e.stubFns) == 0 {
		return
	}
	want := map[string]*ssa.Function{}
	for _, f := range e.stubFns {
		want[strings.TrimPrefix(f.Name(), "vStub_")] = f
	}
	for fn := range allFunctions(ld.Prog) {
		if fn.Pkg == nil && fn.Origin() == nil {
			continue
		}
		var pkgName string
		if fn.Pkg != nil {
			pkgName = fn.Pkg.Pkg.Name()
		} else if o := fn.Origin(); o != nil && o.Pkg != nil {
			pkgName = o.Pkg.Pkg.Name()
		}
		name := pkgName + "_" + fn.Name()
		if recv := fn.Signature.Recv(); recv != nil {
			rt := recv.Type()
			if p, ok := rt.(interface{ Elem() interface{} }); ok {
				_ = p
			}
			tn := rt.String()
			tn = strings.TrimPrefix(tn, "*")
			if i := strings.LastIndex(tn, "."); i >= 0 {
				tn = tn[i+1:]
			}
			name = pkgName + "_" + tn + "_" + fn.Name()
		}
		if s, ok := want[name]; ok {
			e.overrides[fnKey(fn)] = s
		}
	}
}

var allFnsOnce sync.Once
var allFns map[*ssa.Function]bool

func allFunctions(prog *ssa.Program) map[*ssa.Function]bool {
	allFnsOnce.Do(func() {
		allFns = map[*ssa.Function]bool{}
		for _, pkg := range prog.AllPackages() {
			for _, m := range pkg.Members {
				switch x := m.(type) {
				case *ssa.Function:
					allFns[x] = true
				case *ssa.Type:
					for _, t := range []interface{}{x.Type()} {
						_ = t
					}
					mset := prog.MethodSets.MethodSet(x.Type())
					for i := 0; i < mset.Len(); i++ {
						if f := prog.MethodValue(mset.At(i)); f != nil {
							allFns[f] = true
						}
					}
					pm := prog.MethodSets.MethodSet(typesPointer(x.Type()))
					for i := 0; i < pm.Len(); i++ {
						if f := prog.MethodValue(pm.At(i)); f != nil {
							allFns[f] = true
						}
					}
				}
			}
		}
	})
	return allFns
}

type HarnessReport struct {
	Name         string                 `json:"harness"`
	Paths        int                    `json:"paths"`
	Asserts      map[string]*AssertStat `json:"asserts"`
	Failures     []string               `json:"failed_asserts"`
	UnwindHits   []string               `json:"unwinding_bound_hits"`
	Inconclusive []string               `json:"inconclusive"`
	Instrs       int                    `json:"ssa_instructions_executed"`
	Items        int                    `json:"states_explored"`
	Merges       int                    `json:"state_merges"`
	Forks        int                    `json:"forks"`
	Queries      SolverStats            `json:"solver"`
	Secs         float64                `json:"wall_s"`
	Notes        []string               `json:"notes,omitempty"`
}

func main() {
	if len(os.Args) < 2 {
		fmt.Fprintln(os.Stderr, "usage: mobverif run -prop C01 -tier quick")
		os.Exit(2)
	}
	switch os.Args[1] {
	case "run":
		os.Exit(cmdRun(os.Args[2:]))
	default:
		fmt.Fprintln(os.Stderr, "unknown command")
		os.Exit(2)
	}
}

func cmdRun(args []string) int {
	fs := flag.NewFlagSet("run", flag.ExitOnError)
	cfg := &RunConfig{}
	fs.StringVar(&cfg.VerifDir, "verif", "/verif", "verif dir")
	fs.StringVar(&cfg.Prop, "prop", "", "property id")
	fs.StringVar(&cfg.Tier, "tier", "quick", "quick|thorough")
	fs.StringVar(&cfg.Only, "harness", "", "only harnesses containing this substring")
	fs.BoolVar(&cfg.Verbose, "v", false, "verbose")
	fs.IntVar(&cfg.Workers, "j", 14, "parallel harnesses")
	fs.StringVar(&cfg.Solver, "solver", "z3-new", "solver binary")
	fs.IntVar(&cfg.TimeoutMs, "timeout", 0, "per-query timeout ms")
	fs.StringVar(&cfg.XSolver, "xsolver", "z3", "second solver used to cross-check assertion obligations in the thorough tier (empty = off)")
	fs.BoolVar(&cfg.NoMerge, "nomerge", false, "disable state merging")
	fs.BoolVar(&cfg.NoReplay, "noreplay", false, "skip native replay")
	fs.Parse(args)
	if cfg.TimeoutMs == 0 {
		cfg.TimeoutMs = 60000
		if cfg.Tier == "thorough" {
			cfg.TimeoutMs = 120000
		}
	}
	if s := os.Getenv("VERIF_SEED"); s != "" {
		fmt.Sscanf(s, "%d", &cfg.Seed)
	}
	start := time.Now()
	ld, err := loadProgram(cfg.VerifDir, cfg.Prop)
	if err != nil {
		fmt.Printf("INCONCLUSIVE property=%s cannot load /repo with harness: %v\n", cfg.Prop, err)
		writeEvidence(cfg, nil, nil, nil, time.Since(start).Seconds(), []string{"load failed: " + err.Error()})
		return 0
	}
	loadSecs := time.Since(start).Seconds()
	var hs []*ssa.Function
	for _, fn := range ld.Harnesses {
		if strings.Contains(fn.Name(), "_thorough") && cfg.Tier != "thorough" {
			continue
		}
		if strings.Contains(fn.Name(), "_quick") && cfg.Tier != "quick" {
			continue
		}
		if cfg.Only == "" || strings.Contains(fn.Name(), cfg.Only) {
			hs = append(hs, fn)
		}
	}
	if len(hs) == 0 {
		fmt.Printf("INCONCLUSIVE property=%s no harness found\n", cfg.Prop)
		writeEvidence(cfg, nil, nil, nil, time.Since(start).Seconds(), []string{"no harness"})
		return 0
	}
	fmt.Printf("loaded in %.1fs, %d harnesses\n", loadSecs, len(hs))
	runs := make([]*HarnessRun, len(hs))
	reports := make([]*HarnessReport, len(hs))
	execs := make([]*Exec, len(hs))
	var wg sync.WaitGroup
	sem := make(chan struct{}, cfg.Workers)
	var mu sync.Mutex
	for i, fn := range hs {
		wg.Add(1)
		go func(i int, fn *ssa.Function) {
			defer wg.Done()
			sem <- struct{}{}
			defer func() { <-sem }()
			t0 := time.Now()
			h, e := runHarness(ld, fn, cfg)
			rep := &HarnessReport{Name: h.Name, Paths: h.Paths, Asserts: h.Asserts, UnwindHits: h.UnwindHits, Inconclusive: h.Inconclusive,
				Instrs: e.stats.Instrs, Items: e.stats.Items, Merges: e.stats.Merges, Forks: e.stats.Forks, Secs: time.Since(t0).Seconds()}
			if e.sol != nil {
				rep.Queries = e.sol.Stats
			}
			for _, f := range h.Failures {
				rep.Failures = append(rep.Failures, f.ID)
			}
			rep.Notes = h.Notes
			mu.Lock()
			runs[i], reports[i], execs[i] = h, rep, e
			status := "ok"
			if len(h.Failures) > 0 {
				status = fmt.Sprintf("FAIL %v", rep.Failures)
			}
			if len(h.Inconclusive) > 0 || len(h.UnwindHits) > 0 {
				status += " INCONCLUSIVE"
			}
			fmt.Printf("  %-40s paths=%-4d instrs=%-8d merges=%-4d queries=%-5d solver=%dms wall=%.1fs %s\n", h.Name, h.Paths, e.stats.Instrs, e.stats.Merges, rep.Queries.Queries, rep.Queries.Millis, rep.Secs, status)
			for _, m := range h.Notes {
				fmt.Printf("      note: %s\n", m)
			}
			if cfg.Verbose || len(h.Inconclusive) > 0 {
				for _, m := range h.Inconclusive {
					fmt.Printf("      inconclusive: %s\n", firstLines(m, 12))
				}
				for _, m := range h.UnwindHits {
					fmt.Printf("      unwind: %s\n", m)
				}
			}
			mu.Unlock()
		}(i, fn)
	}
	wg.Wait()
	return finish(cfg, ld, runs, reports, execs, start)
}

func firstLines(s string, n int) string {
	ls := strings.Split(s, "\n")
	if len(ls) > n {
		ls = ls[:n]
	}
	return strings.Join(ls, "\n")
}

// --- known findings -------------------------------------------------------------------

type KnownFinding struct {
	Property string `json:"property"`
	Harness  string `json:"harness"`
	Assert   string `json:"assert"`
	What     string `json:"what"`
	Status   string `json:"status"` // "known" or "fixed"
	Commit   string `json:"commit,omitempty"`
}

func loadKnown(verifDir string) []KnownFinding {
	var k []KnownFinding
	b, err := os.ReadFile(filepath.Join(verifDir, "known_findings.json"))
	if err != nil {
		return nil
	}
	json.Unmarshal(b, &k)
	return k
}

func finish(cfg *RunConfig, ld *Loaded, runs []*HarnessRun, reports []*HarnessReport, execs []*Exec, start time.Time) int {
	known := loadKnown(cfg.VerifDir)
	isKnown := func(h, id string) *KnownFinding {
		for i := range known {
			k := &known[i]
			if k.Status == "known" && k.Property == cfg.Prop && k.Harness == h && k.Assert == id {
				return k
			}
		}
		return nil
	}
	var all []*Failure
	usedOverrides := map[string]bool{}
	for i, h := range runs {
		all = append(all, h.Failures...)
		if execs[i] != nil {
			for k := range execs[i].stats.Stubs {
				if strings.HasPrefix(k, "override:") {
					usedOverrides[h.Name] = true
				}
			}
		}
	}
	// native replay: failures and sampled traces
	rr := &ReplayResult{}
	if !cfg.NoReplay {
		rr = replayAll(cfg, ld, runs)
	}
	exit := 0
	var inconcl []string
	violations := 0
	for _, f := range all {
		key := f.Harness + "/" + f.ID
		rep, ran := rr.Failed[key]
		// harnesses that ran on engine-only environment stubs (vStub_ overrides) cannot be confirmed natively:
		// they are treated like the _sym harnesses (the native run uses the real os/sync/bcrypt functions)
		noNative := rr.NoNative[f.Harness] || usedOverrides[f.Harness]
		dir := rr.Dirs[key]
		if dir == "" {
			dir = filepath.Join(cfg.VerifDir, "replays", cfg.Prop)
		}
		switch {
		case ran && !rep && !noNative:
			msg := fmt.Sprintf("counterexample for %s did not reproduce natively (encoding or stub mismatch)", key)
			inconcl = append(inconcl, msg)
			fmt.Printf("INCONCLUSIVE property=%s %s\n", cfg.Prop, msg)
			continue
		case !ran && !noNative && !cfg.NoReplay:
			msg := fmt.Sprintf("counterexample for %s could not be replayed: %s", key, rr.Err)
			inconcl = append(inconcl, msg)
			fmt.Printf("INCONCLUSIVE property=%s %s\n", cfg.Prop, msg)
			continue
		}
		if k := isKnown(f.Harness, f.ID); k != nil {
			fmt.Printf("KNOWN-FINDING: property=%s %s [%s/%s]\n", cfg.Prop, k.What, f.Harness, f.ID)
			continue
		}
		violations++
		exit = 1
		fmt.Printf("VIOLATION property=%s replay=%s harness=%s assert=%s %s\n", cfg.Prop, dir, f.Harness, f.ID, f.Msg)
	}
	for _, h := range runs {
		for _, m := range h.Inconclusive {
			inconcl = append(inconcl, h.Name+": "+firstLines(m, 3))
		}
		for _, m := range h.UnwindHits {
			inconcl = append(inconcl, h.Name+": "+m)
		}
	}
	if rr.TraceMismatch > 0 {
		msg := fmt.Sprintf("translator validation: %d sampled path(s) disagree with the native run: %s", rr.TraceMismatch, strings.Join(rr.MismatchInfo, "; "))
		inconcl = append(inconcl, msg)
		fmt.Printf("INCONCLUSIVE property=%s %s\n", cfg.Prop, msg)
	}
	for _, m := range inconcl {
		if !strings.HasPrefix(m, "counterexample") && !strings.HasPrefix(m, "translator") {
			fmt.Printf("INCONCLUSIVE property=%s %s\n", cfg.Prop, m)
		}
	}
	writeEvidence(cfg, runs, reports, execs, time.Since(start).Seconds(), inconcl, rr, violations)
	fmt.Printf("property=%s tier=%s harnesses=%d violations=%d inconclusive=%d wall=%.1fs\n", cfg.Prop, cfg.Tier, len(runs), violations, len(inconcl), time.Since(start).Seconds())
	return exit
}

func sortedStatKeys(m map[string]*AssertStat) []string {
	var ks []string
	for k := range m {
		ks = append(ks, k)
	}
	sort.Strings(ks)
	return ks
}
