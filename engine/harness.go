package main

// Harness-facing intrinsics (vU8, vBytes, vAssert, ...) and per-harness bookkeeping.

import (
	"fmt"
	"go/types"
	"os"
	"reflect"
	"sort"
	"strconv"
	"strings"
	"time"

	"golang.org/x/tools/go/ssa"
)

type InputDecl struct {
	Name string // name#k
	Kind string // u8,u16,u32,u64,int,bool,bytes,choice
	T    *Term  // scalar term / length term for bytes
	Arr  *Term  // array var for bytes
	Max  int
	// Guard: the path condition under which this input was drawn. After states merge, a path that drew fewer inputs
	// of a name continues with the larger counter; the model given to the native run is renumbered over the inputs
	// whose guard is true, which is the order in which the native run draws them.
	Guard *Term
}

type Failure struct {
	Harness string
	ID      string
	Pos     string
	Model   map[string]interface{}
	Msg     string
	PCSize  int
}

type Obligation struct {
	Harness string `json:"harness"`
	ID      string `json:"assert"`
	Verdict string `json:"verdict"`
	PCTerms int    `json:"pc_terms"`
	Millis  int64  `json:"solver_ms"`
}

type Observation struct {
	Name string
	T    []*Term // scalar: 1 term; bytes: len + bytes (bounded)
	Kind string
	C    Content
	Off  *Term
	Len  *Term
}

type HarnessRun struct {
	Name          string
	Fn            *ssa.Function
	Failures      []*Failure
	failSeen      map[string]bool
	Asserts       map[string]*AssertStat
	UnwindHits    []string
	Inconclusive  []string
	Paths         int
	PanicPaths    int
	sends         int
	inputs        map[*State][]InputDecl
	obs           map[*State][]Observation
	Obligations   []Obligation
	Traces        []*PathTrace // sampled completed paths with model + observations
	Assumes       int
	maxTraces     int
	Notes         []string
	UsedOverrides bool
	NonFaithful   bool
	EngineOnlyAPI bool // the harness called vRunSpawned/vSpawnCount/vSendCount/vLocksHeldNow/vDistinctRandom (no native counterpart)
	CrossChecked  int
	CrossDisagree int
}

type AssertStat struct {
	Reached    int
	Trivial    int
	Discharged int
	Failed     int
	Unknown    int
}

type PathTrace struct {
	Model    map[string]interface{}
	Observed map[string]interface{}
}

func (h *HarnessRun) stat(id string) *AssertStat {
	s, ok := h.Asserts[id]
	if !ok {
		s = &AssertStat{}
		h.Asserts[id] = s
	}
	return s
}

func (h *HarnessRun) unwindHit(e *Exec, st *State, fn *ssa.Function, b *ssa.BasicBlock) {
	msg := fmt.Sprintf("unwinding bound %d reached in %s block %d", e.unroll, fn, b.Index)
	for _, m := range h.UnwindHits {
		if m == msg {
			return
		}
	}
	h.UnwindHits = append(h.UnwindHits, msg)
}

// inputs are tracked in State.log-free side tables keyed by state identity; forks copy them.
func (e *Exec) addInput(st *State, d InputDecl) {
	d.Guard = e.tc.AndN(st.pc)
	st.inputs = append(st.inputs, d)
}

func (e *Exec) nondetName(st *State, name string) string {
	k := st.counts[name]
	st.counts[name] = k + 1
	return fmt.Sprintf("%s#%d", name, k)
}

func (e *Exec) argString(v Value) string {
	s, ok := e.concreteString(v.(StringV))
	if !ok {
		panic(unsupported("harness API name/id must be a constant string"))
	}
	return s
}

func (e *Exec) argInt(v Value) int {
	b := v.(BV)
	if !b.T.konst {
		panic(unsupported("harness API integer argument must be constant"))
	}
	return int(b.T.SVal())
}

func ret(st *State, vs ...Value) []Outcome { return []Outcome{{st: st, rets: vs}} }

func registerHarnessAPI(e *Exec) {
	scalar := func(kind string, w int) Intrinsic {
		return func(e *Exec, st *State, fn *ssa.Function, args []Value) []Outcome {
			name := e.nondetName(st, e.argString(args[0]))
			t := e.tc.Var(name, w)
			e.addInput(st, InputDecl{Name: name, Kind: kind, T: t})
			if w == 0 {
				return ret(st, BoolV{t})
			}
			return ret(st, BV{t})
		}
	}
	api := map[string]Intrinsic{
		"vU8":   scalar("u8", 8),
		"vU16":  scalar("u16", 16),
		"vU32":  scalar("u32", 32),
		"vU64":  scalar("u64", 64),
		"vInt":  scalar("int", 64),
		"vBool": scalar("bool", 0),
		"vBytes": func(e *Exec, st *State, fn *ssa.Function, args []Value) []Outcome {
			name := e.nondetName(st, e.argString(args[0]))
			max := e.argInt(args[1])
			ln := e.tc.Var(name+".len", 64)
			arr := e.tc.ArrayVar(name + ".arr")
			st.assume(e.tc.Ule(ln, e.tc.Int(int64(max))))
			e.bounds[ln.id] = max
			e.addInput(st, InputDecl{Name: name, Kind: "bytes", T: ln, Arr: arr, Max: max})
			id := e.alloc(st, ByteBuf{C: &CBase{arr}, Len: ln})
			return ret(st, SliceV{Base: Ptr{Obj: id}, Off: e.tc.Int(0), Len: ln, Cap: ln})
		},
		"vBytesEach": func(e *Exec, st *State, fn *ssa.Function, args []Value) []Outcome {
			// like vBytes but forks over every length 0..max so that the length is concrete on each path
			name := e.nondetName(st, e.argString(args[0]))
			max := e.argInt(args[1])
			ln := e.tc.Var(name+".len", 64)
			arr := e.tc.ArrayVar(name + ".arr")
			var outs []Outcome
			for k := 0; k <= max; k++ {
				kt := e.tc.Int(int64(k))
				c := e.tc.Eq(ln, kt)
				if !e.feasible(st, c) {
					continue
				}
				s2 := st
				if k < max {
					s2 = st.fork()
				}
				s2.assume(c)
				s2.tag += fmt.Sprintf("|%s=%d", name, k)
				e.addInput(s2, InputDecl{Name: name, Kind: "bytes", T: ln, Arr: arr, Max: max})
				id := e.alloc(s2, ByteBuf{C: &CBase{arr}, Len: kt})
				outs = append(outs, Outcome{st: s2, rets: []Value{SliceV{Base: Ptr{Obj: id}, Off: e.tc.Int(0), Len: kt, Cap: kt}}})
			}
			e.stats.Forks += len(outs)
			return outs
		},
		"vBytesN": func(e *Exec, st *State, fn *ssa.Function, args []Value) []Outcome {
			name := e.nondetName(st, e.argString(args[0]))
			n := args[1].(BV).T
			arr := e.tc.ArrayVar(name + ".arr")
			mx := e.lenBound(n)
			e.addInput(st, InputDecl{Name: name, Kind: "bytes", T: n, Arr: arr, Max: mx})
			id := e.alloc(st, ByteBuf{C: &CBase{arr}, Len: n})
			return ret(st, SliceV{Base: Ptr{Obj: id}, Off: e.tc.Int(0), Len: n, Cap: n})
		},
		"vString": func(e *Exec, st *State, fn *ssa.Function, args []Value) []Outcome {
			name := e.nondetName(st, e.argString(args[0]))
			max := e.argInt(args[1])
			ln := e.tc.Var(name+".len", 64)
			arr := e.tc.ArrayVar(name + ".arr")
			st.assume(e.tc.Ule(ln, e.tc.Int(int64(max))))
			e.bounds[ln.id] = max
			e.addInput(st, InputDecl{Name: name, Kind: "bytes", T: ln, Arr: arr, Max: max})
			return ret(st, StringV{C: &CBase{arr}, Off: e.tc.Int(0), Len: ln})
		},
		"vChoice": func(e *Exec, st *State, fn *ssa.Function, args []Value) []Outcome {
			name := e.nondetName(st, e.argString(args[0]))
			n := e.argInt(args[1])
			t := e.tc.Var(name, 64)
			e.addInput(st, InputDecl{Name: name, Kind: "int", T: t})
			var outs []Outcome
			for i := 0; i < n; i++ {
				c := e.tc.Eq(t, e.tc.Int(int64(i)))
				if !e.feasible(st, c) {
					continue
				}
				s2 := st
				if i < n-1 {
					s2 = st.fork()
				}
				s2.assume(c)
				s2.tag += fmt.Sprintf("|%s=%d", name, i)
				outs = append(outs, Outcome{st: s2, rets: []Value{BV{e.tc.Int(int64(i))}}})
			}
			e.stats.Forks += len(outs)
			return outs
		},
		"vConcrete": func(e *Exec, st *State, fn *ssa.Function, args []Value) []Outcome {
			t := args[0].(BV).T
			var outs []Outcome
			fr := &Frame{locals: map[ssa.Value]Value{}, visits: map[int]int{}}
			for _, c := range e.concretize(st, fr, t, 4096) {
				outs = append(outs, Outcome{st: c.st, rets: []Value{BV{e.tc.BVConst(c.v, t.w)}}})
			}
			return outs
		},
		"vAssume": func(e *Exec, st *State, fn *ssa.Function, args []Value) []Outcome {
			c := args[0].(BoolV).T
			e.h.Assumes++
			if !e.feasible(st, c) {
				return nil // path ends: assumption cannot hold
			}
			st.assume(c)
			return ret(st)
		},
		"vAssert": func(e *Exec, st *State, fn *ssa.Function, args []Value) []Outcome {
			id := e.argString(args[0])
			c := args[1].(BoolV).T
			return e.assertTerm(st, id, c, "")
		},
		"vAssertEqBytes": func(e *Exec, st *State, fn *ssa.Function, args []Value) []Outcome {
			id := e.argString(args[0])
			a, b := args[1].(SliceV), args[2].(SliceV)
			// a == b  <=>  len equal and no index k < len with a[k] != b[k]; k is a fresh Skolem constant
			k := e.tc.FreshVar("sk", 64)
			var ac, bc Content = czero, czero
			if !a.Base.IsNil() {
				ac = e.containerContent(st, a.Base)
			}
			if !b.Base.IsNil() {
				bc = e.containerContent(st, b.Base)
			}
			lenEq := e.tc.Eq(a.Len, b.Len)
			elemEq := e.tc.Or(e.tc.Not(e.tc.Ult(k, a.Len)), e.tc.Eq(e.sel(ac, e.tc.Add(a.Off, k)), e.sel(bc, e.tc.Add(b.Off, k))))
			return e.assertTerm(st, id, e.tc.And(lenEq, elemEq), "")
		},
		"vAssertEqBytesEither": func(e *Exec, st *State, fn *ssa.Function, args []Value) []Outcome {
			// a == b || a == c ; the negation needs one Skolem index per disjunct
			id := e.argString(args[0])
			a := args[1].(SliceV)
			eq := func(x SliceV) *Term {
				k := e.tc.FreshVar("sk", 64)
				var ac, xc Content = czero, czero
				if !a.Base.IsNil() {
					ac = e.containerContent(st, a.Base)
				}
				if !x.Base.IsNil() {
					xc = e.containerContent(st, x.Base)
				}
				return e.tc.And(e.tc.Eq(a.Len, x.Len), e.tc.Or(e.tc.Not(e.tc.Ult(k, a.Len)), e.tc.Eq(e.sel(ac, e.tc.Add(a.Off, k)), e.sel(xc, e.tc.Add(x.Off, k)))))
			}
			return e.assertTerm(st, id, e.tc.Or(eq(args[2].(SliceV)), eq(args[3].(SliceV))), "")
		},
		"vReach": func(e *Exec, st *State, fn *ssa.Function, args []Value) []Outcome {
			id := e.argString(args[0])
			e.h.stat("reach:"+id).Reached++
			return ret(st)
		},
		"vUnroll": func(e *Exec, st *State, fn *ssa.Function, args []Value) []Outcome {
			e.unroll = e.argInt(args[0])
			return ret(st)
		},
		"vNoMerge": func(e *Exec, st *State, fn *ssa.Function, args []Value) []Outcome {
			st.noMerge = true
			return ret(st)
		},
		"vIsConcrete": func(e *Exec, st *State, fn *ssa.Function, args []Value) []Outcome {
			_, ok := e.concreteString(args[0].(StringV))
			return ret(st, BoolV{e.tc.BoolConst(ok)})
		},
		"vSymbolic": func(e *Exec, st *State, fn *ssa.Function, args []Value) []Outcome {
			return ret(st, BoolV{e.tc.True()})
		},
		"vRunSpawned": func(e *Exec, st *State, fn *ssa.Function, args []Value) []Outcome {
			return e.runSpawned(st, 0)
		},
		"vSharedMapRaces": func(e *Exec, st *State, fn *ssa.Function, args []Value) []Outcome {
			// maps accessed with no lock held by two different goroutines, at least one access a write
			n := 0
			seen := map[int]bool{}
			for _, a := range st.unlockedMapAccess {
				if seen[a.obj] {
					continue
				}
				for _, b := range st.unlockedMapAccess {
					if b.obj == a.obj && b.g != a.g && (a.write || b.write) {
						seen[a.obj] = true
						n++
						if e.h != nil && len(e.h.Notes) < 8 {
							e.h.Notes = append(e.h.Notes, fmt.Sprintf("map accessed with no lock held by two goroutines: %s / %s", a.where, b.where))
						}
						break
					}
				}
			}
			return ret(st, BV{e.tc.Int(int64(n))})
		},
		"vDistinctRandom": func(e *Exec, st *State, fn *ssa.Function, args []Value) []Outcome {
			st.distinctRand = true
			return ret(st)
		},
		"vLocksHeldNow": func(e *Exec, st *State, fn *ssa.Function, args []Value) []Outcome {
			return ret(st, BV{e.tc.Int(int64(st.locks))})
		},
		"vSendCount": func(e *Exec, st *State, fn *ssa.Function, args []Value) []Outcome {
			return ret(st, BV{e.tc.Int(int64(st.sends))})
		},
		"vSpawnCount": func(e *Exec, st *State, fn *ssa.Function, args []Value) []Outcome {
			return ret(st, BV{e.tc.Int(int64(len(st.spawned)))})
		},
		"vObserveInt": func(e *Exec, st *State, fn *ssa.Function, args []Value) []Outcome {
			name := e.argString(args[0])
			st.obs = append(st.obs, Observation{Name: name, Kind: "int", T: []*Term{args[1].(BV).T}})
			return ret(st)
		},
		"vObserveBool": func(e *Exec, st *State, fn *ssa.Function, args []Value) []Outcome {
			name := e.argString(args[0])
			st.obs = append(st.obs, Observation{Name: name, Kind: "bool", T: []*Term{args[1].(BoolV).T}})
			return ret(st)
		},
		"vObserveBytes": func(e *Exec, st *State, fn *ssa.Function, args []Value) []Outcome {
			name := e.argString(args[0])
			s := args[1].(SliceV)
			var c Content = czero
			if !s.Base.IsNil() {
				c = e.containerContent(st, s.Base)
			}
			st.obs = append(st.obs, Observation{Name: name, Kind: "bytes", C: c, Off: s.Off, Len: s.Len})
			return ret(st)
		},
		"vObserveString": func(e *Exec, st *State, fn *ssa.Function, args []Value) []Outcome {
			name := e.argString(args[0])
			s := args[1].(StringV)
			st.obs = append(st.obs, Observation{Name: name, Kind: "bytes", C: s.C, Off: s.Off, Len: s.Len})
			return ret(st)
		},
		"vTagMap": func(e *Exec, st *State, fn *ssa.Function, args []Value) []Outcome {
			// struct value -> map[string]interface{} keyed by the yaml struct tag (the YAML library's contract)
			iv := args[0].(IfaceV)
			if iv.T == nil {
				return ret(st, MapV{Obj: -1})
			}
			stt, ok := iv.T.Underlying().(*types.Struct)
			if !ok {
				panic(unsupported("vTagMap of %s", iv.T))
			}
			sv := iv.V.(StructV)
			var mo MapObj
			for i := 0; i < stt.NumFields(); i++ {
				tag := reflect.StructTag(stt.Tag(i)).Get("yaml")
				key := strings.Split(tag, ",")[0]
				if key == "" {
					key = strings.ToLower(stt.Field(i).Name())
				}
				if key == "-" {
					continue
				}
				if strings.Contains(tag, ",omitempty") && e.yamlEmpty(st, sv.F[i]) {
					continue // the marshaller leaves an empty field out of the document
				}
				mo.Keys = append(mo.Keys, e.constString(key))
				mo.Vals = append(mo.Vals, IfaceV{T: stt.Field(i).Type(), V: sv.F[i]})
			}
			id := e.alloc(st, mo)
			return ret(st, MapV{Obj: id})
		},
		"vTimeAny": func(e *Exec, st *State, fn *ssa.Function, args []Value) []Outcome {
			// an arbitrary instant (wall clock reading without monotonic part), not ordered w.r.t. time.Now()
			name := e.nondetName(st, e.argString(args[0]))
			ext := e.tc.Var(name+".sec", 64)
			nsec := e.tc.Var(name+".nsec", 64)
			lo := e.tc.Int(62135596800)
			hi := e.tc.Int(62135596800 + 1<<33)
			st.assume(e.tc.And(e.tc.Sle(lo, ext), e.tc.Sle(ext, hi)))
			st.assume(e.tc.Ult(nsec, e.tc.Int(1000000000)))
			e.addInput(st, InputDecl{Name: name + ".sec", Kind: "int", T: ext})
			e.addInput(st, InputDecl{Name: name + ".nsec", Kind: "int", T: nsec})
			return ret(st, StructV{[]Value{BV{nsec}, BV{ext}, nilPtr}})
		},
		"vLog": func(e *Exec, st *State, fn *ssa.Function, args []Value) []Outcome {
			return ret(st)
		},
	}
	e.harnessAPI = api
}

func (e *Exec) runSpawned(st *State, n int) []Outcome {
	if len(st.spawned) == 0 {
		return ret(st, BV{e.tc.Int(int64(n))})
	}
	sp := st.spawned[0]
	st.spawned = append([]Spawn(nil), st.spawned[1:]...)
	var outs []Outcome
	e.inSpawned++
	e.spawnSeq++
	saveWM := e.spawnWatermark
	e.spawnWatermark = e.nextObj
	res := e.callValue(st, sp.Fn, sp.Args, e.curDepth+1)
	e.spawnWatermark = saveWM
	e.inSpawned--
	for _, o := range res {
		if o.panicked && o.st.parked {
			o.st.parked = false
			o.st.panicVal, o.st.pending = nil, nil
			outs = append(outs, e.runSpawned(o.st, n+1)...)
			continue
		}
		if o.panicked {
			outs = append(outs, o)
			continue
		}
		outs = append(outs, e.runSpawned(o.st, n+1)...)
	}
	return outs
}

// assertTerm checks pc => c. On failure records a counterexample. Continues assuming c.
func (e *Exec) assertTerm(st *State, id string, c *Term, msg string) []Outcome {
	h := e.h
	as := h.stat(id)
	as.Reached++
	if c.IsTrue() {
		as.Trivial++
		return ret(st)
	}
	q := append(append([]*Term(nil), st.pc...), e.tc.Not(c))
	if debugTrace {
		fmt.Fprintf(os.Stderr, "assert %s: term size %d, pc %d terms, total terms %d\n", id, c.Size(), len(st.pc), len(e.tc.all))
	}
	before := e.sol.Stats.Millis
	r := e.sol.CheckKeep(q)
	ms := e.sol.Stats.Millis - before
	if len(h.Obligations) < 400 {
		h.Obligations = append(h.Obligations, Obligation{h.Name, id, r, len(st.pc), ms})
	}
	if e.xsol != nil && (r == "sat" || r == "unsat") && time.Now().Before(e.deadline) && e.xsolSpent < 300*time.Second {
		x0 := time.Now()
		// second opinion (thorough tier): the same obligation is sent to a different solver
		// hard limit from our side as well: z3 4.8.12 does not always honour its own :timeout on these goals
		xs := e.xsol
		ans := make(chan string, 1)
		go func() { ans <- xs.Check(q) }()
		r2 := "unknown"
		select {
		case r2 = <-ans:
		case <-time.After(25 * time.Second):
			xs.Close()
			e.xsol = nil // no further cross-checking in this harness
		}
		e.xsolSpent += time.Since(x0)
		h.CrossChecked++
		if (r2 == "sat" || r2 == "unsat") && r2 != r {
			h.CrossDisagree++
			h.Inconclusive = append(h.Inconclusive, fmt.Sprintf("assert %s: solvers disagree (%s vs %s)", id, r, r2))
			if r == "sat" {
				e.sol.Pop()
			}
			r = "disagree"
		}
	}
	switch r {
	case "disagree":
		as.Unknown++
	case "unsat":
		as.Discharged++
	case "sat":
		as.Failed++
		if !h.failSeen[id] {
			h.failSeen[id] = true
			model, err := e.extractModel(st)
			if err != nil {
				h.Inconclusive = append(h.Inconclusive, fmt.Sprintf("assert %s: model extraction failed: %v", id, err))
			} else {
				h.Failures = append(h.Failures, &Failure{Harness: h.Name, ID: id, Model: model, Msg: msg, PCSize: len(st.pc)})
			}
		}
		e.sol.Pop()
	default:
		as.Unknown++
		h.Inconclusive = append(h.Inconclusive, fmt.Sprintf("assert %s: solver answered %s", id, r))
	}
	if !e.feasible(st, c) {
		return nil
	}
	st.assume(c)
	return ret(st)
}

// extractModel reads the values of all inputs declared on this path from the current (kept) model.
func (e *Exec) extractModel(st *State) (map[string]interface{}, error) {
	model := map[string]interface{}{}
	var scal []*Term
	for _, d := range st.inputs {
		scal = append(scal, d.T)
	}
	for _, d := range st.inputs {
		g := d.Guard
		if g == nil {
			g = e.tc.True()
		}
		scal = append(scal, g)
	}
	vals, err := e.sol.Eval(scal)
	if err != nil {
		return nil, err
	}
	// renumber: per base name, the inputs actually drawn on the path the model follows, in drawing order
	n0 := len(st.inputs)
	type drawn struct{ idx, k int }
	byBase := map[string][]drawn{}
	parts := make([][3]string, n0)
	for i, d := range st.inputs {
		base, k, suffix := splitInputName(d.Name)
		parts[i] = [3]string{base, "", suffix}
		if vals[n0+i] == 0 {
			continue
		}
		byBase[base] = append(byBase[base], drawn{i, k})
	}
	newName := make([]string, n0)
	for base, ds := range byBase {
		sort.SliceStable(ds, func(a, b int) bool { return ds[a].k < ds[b].k })
		pos, last := -1, -1
		for _, d := range ds {
			if d.k != last {
				pos++
				last = d.k
			}
			newName[d.idx] = fmt.Sprintf("%s#%d%s", base, pos, parts[d.idx][2])
		}
	}
	for i, d := range st.inputs {
		if newName[i] == "" {
			continue // not drawn on this path
		}
		if d.Kind != "bytes" {
			model[newName[i]] = vals[i]
			continue
		}
		n := int(vals[i])
		m := n
		if m > 8192 {
			m = 8192
		}
		ts := make([]*Term, m)
		for j := 0; j < m; j++ {
			ts[j] = e.tc.Select(d.Arr, e.tc.Int(int64(j)))
		}
		bv, err := e.sol.Eval(ts)
		if err != nil {
			return nil, err
		}
		buf := make([]byte, n)
		for j := 0; j < m; j++ {
			buf[j] = byte(bv[j])
		}
		model[newName[i]] = fmt.Sprintf("%x", buf)
	}
	return model, nil
}

// splitInputName splits "name#k" / "name#k.suffix" into its parts.
func splitInputName(s string) (string, int, string) {
	i := strings.LastIndex(s, "#")
	if i < 0 {
		return s, 0, ""
	}
	j := i + 1
	for j < len(s) && s[j] >= '0' && s[j] <= '9' {
		j++
	}
	k, _ := strconv.Atoi(s[i+1 : j])
	return s[:i], k, s[j:]
}

// evalObservations evaluates the observations of st under the current kept model.
func (e *Exec) evalObservations(st *State) (map[string]interface{}, error) {
	out := map[string]interface{}{}
	cnt := map[string]int{}
	for _, o := range st.obs {
		name := fmt.Sprintf("%s#%d", o.Name, cnt[o.Name])
		cnt[o.Name]++
		switch o.Kind {
		case "int", "bool":
			v, err := e.sol.Eval(o.T)
			if err != nil {
				return nil, err
			}
			out[name] = v[0]
		case "bytes":
			lv, err := e.sol.Eval([]*Term{o.Len})
			if err != nil {
				return nil, err
			}
			n := int(lv[0])
			m := n
			if m > 4096 {
				m = 4096
			}
			ts := make([]*Term, m)
			for j := 0; j < m; j++ {
				ts[j] = e.sel(o.C, e.tc.Add(o.Off, e.tc.Int(int64(j))))
			}
			bv, err := e.sol.Eval(ts)
			if err != nil {
				return nil, err
			}
			buf := make([]byte, m)
			for j := range buf {
				buf[j] = byte(bv[j])
			}
			out[name] = fmt.Sprintf("%d:%x", n, buf)
		}
	}
	return out, nil
}

// finishPath is called for each completed path of a harness: samples a model + observations for translator validation.
func (e *Exec) finishPath(st *State, panicked bool) {
	h := e.h
	h.Paths++
	if panicked {
		h.PanicPaths++
		as := h.stat("uncaught_panic")
		as.Reached++
		as.Failed++
		if !h.failSeen["uncaught_panic"] {
			r := e.sol.CheckKeep(st.pc)
			if r == "sat" {
				h.failSeen["uncaught_panic"] = true
				model, err := e.extractModel(st)
				e.sol.Pop()
				if err == nil {
					h.Failures = append(h.Failures, &Failure{Harness: h.Name, ID: "uncaught_panic", Model: model, Msg: st.panicMsg, PCSize: len(st.pc)})
				}
			}
		}
		return
	}
	if len(h.Traces) >= h.maxTraces || st.obsBad {
		return
	}
	r := e.sol.CheckKeep(st.pc)
	if r != "sat" {
		return
	}
	defer e.sol.Pop()
	model, err := e.extractModel(st)
	if err != nil {
		return
	}
	obs, err := e.evalObservations(st)
	if err != nil {
		return
	}
	h.Traces = append(h.Traces, &PathTrace{Model: model, Observed: obs})
}

func sortedKeys(m map[string]int) []string {
	var ks []string
	for k := range m {
		ks = append(ks, k)
	}
	sort.Strings(ks)
	return ks
}

var _ = strings.Join

// yamlEmpty: the YAML library's notion of an empty value for omitempty (nil or zero-length map/slice/string, zero
// number, false, nil pointer). Anything not decidable syntactically is reported, never guessed.
func (e *Exec) yamlEmpty(st *State, v Value) bool {
	switch x := v.(type) {
	case MapV:
		if x.Obj < 0 {
			return true
		}
		mo, _ := st.heap[x.Obj].(MapObj)
		return len(mo.Keys) == 0
	case SliceV:
		if x.Base.IsNil() {
			return true
		}
		if x.Len.konst {
			return x.Len.cv == 0
		}
	case StringV:
		if x.Len.konst {
			return x.Len.cv == 0
		}
	case BV:
		if x.T.konst {
			return x.T.cv == 0
		}
	case BoolV:
		if x.T.IsTrue() {
			return false
		}
		if x.T.IsFalse() {
			return true
		}
	case Ptr:
		return x.IsNil()
	case ArrayV, ByteArr, StructV:
		return false
	}
	panic(unsupported("vTagMap: cannot decide whether an omitempty field is empty (%T)", v))
}
