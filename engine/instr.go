package main

import (
	"fmt"
	"go/constant"
	"go/token"
	"go/types"

	"golang.org/x/tools/go/ssa"
)

func constInt64(c *ssa.Const) (int64, bool) {
	if c.Value.Kind() == constant.Int {
		return constant.Int64Val(c.Value)
	}
	if c.Value.Kind() == constant.Float {
		f, _ := constant.Float64Val(c.Value)
		return int64(f), true
	}
	return 0, false
}
func constBool(c *ssa.Const) bool { return constant.BoolVal(c.Value) }
func constStr(c *ssa.Const) string {
	if c.Value.Kind() == constant.String {
		return constant.StringVal(c.Value)
	}
	return string(rune(c.Int64()))
}

func one(st *State, fr *Frame) []stepOut { return []stepOut{{st: st, fr: fr}} }

// panicOut marks st as panicking with msg.
func (e *Exec) panicOut(st *State, fr *Frame, msg string) stepOut {
	// a fault inside os/poll/syscall internals means a harness file stub does not cover the method that was
	// called (e.g. a new (*os.File) method): that is missing modelling, never a finding
	if fr != nil && fr.fn != nil && fr.fn.Pkg != nil {
		switch fr.fn.Pkg.Pkg.Path() {
		case "os", "internal/poll", "syscall", "io/fs", "internal/syscall/unix":
			panic(unsupported("operation on a stubbed file reached %s (%s)", fr.fn, msg))
		}
	}
	st.panicVal = e.panicString(msg)
	st.panicMsg = msg
	return stepOut{st: st, fr: fr, panicked: true}
}

// guard splits st on condition ok: continuing state assumes ok; a panic state is produced if !ok is feasible.
// Returns (continue?, outs-with-panic).
func (e *Exec) guard(st *State, fr *Frame, ok *Term, msg string) (cont bool, outs []stepOut) {
	if ok.IsTrue() {
		return true, nil
	}
	bad := e.tc.Not(ok)
	if e.feasible(st, bad) {
		ps := st.fork()
		ps.assume(bad)
		outs = append(outs, e.panicOut(ps, fr.fork(), msg))
		if !e.feasible(st, ok) {
			return false, outs
		}
		st.assume(ok)
		return true, outs
	}
	return true, nil
}

func (e *Exec) execInstr(st *State, fr *Frame, instr ssa.Instruction) []stepOut {
	tc := e.tc
	switch x := instr.(type) {
	case *ssa.DebugRef:
		return one(st, fr)

	case *ssa.Alloc:
		t := x.Type().(*types.Pointer).Elem()
		id := e.alloc(st, e.zero(t))
		fr.locals[x] = Ptr{Obj: id}
		return one(st, fr)

	case *ssa.Store:
		p := e.val(st, fr, x.Addr).(Ptr)
		if p.IsNil() {
			return []stepOut{e.panicOut(st, fr, "nil pointer dereference (store) at "+e.pos(instr))}
		}
		e.store(st, p, e.val(st, fr, x.Val))
		return one(st, fr)

	case *ssa.UnOp:
		return e.unop(st, fr, x)

	case *ssa.BinOp:
		return e.binop(st, fr, x)

	case *ssa.Convert:
		fr.locals[x] = e.convert(st, e.val(st, fr, x.X), x.X.Type(), x.Type())
		return one(st, fr)

	case *ssa.ChangeType:
		fr.locals[x] = e.val(st, fr, x.X)
		return one(st, fr)

	case *ssa.ChangeInterface:
		fr.locals[x] = e.val(st, fr, x.X)
		return one(st, fr)

	case *ssa.MakeInterface:
		fr.locals[x] = IfaceV{T: x.X.Type(), V: e.val(st, fr, x.X)}
		return one(st, fr)

	case *ssa.TypeAssert:
		return e.typeAssert(st, fr, x)

	case *ssa.Extract:
		fr.locals[x] = e.val(st, fr, x.Tuple).(TupleV)[x.Index]
		return one(st, fr)

	case *ssa.Field:
		fr.locals[x] = e.val(st, fr, x.X).(StructV).F[x.Field]
		return one(st, fr)

	case *ssa.FieldAddr:
		p := e.val(st, fr, x.X).(Ptr)
		if p.IsNil() {
			return []stepOut{e.panicOut(st, fr, "nil pointer dereference (field) at "+e.pos(instr))}
		}
		fr.locals[x] = p.With(PathElem{Field: x.Field})
		return one(st, fr)

	case *ssa.IndexAddr:
		return e.indexAddr(st, fr, x)

	case *ssa.Index:
		return e.index(st, fr, x)

	case *ssa.Slice:
		return e.slice(st, fr, x)

	case *ssa.SliceToArrayPointer:
		s := e.val(st, fr, x.X).(SliceV)
		n := x.Type().(*types.Pointer).Elem().Underlying().(*types.Array).Len()
		cont, outs := e.guard(st, fr, tc.Ule(tc.Int(n), s.Len), "slice to array pointer: length too short at "+e.pos(instr))
		if !cont {
			return outs
		}
		if s.Base.IsNil() {
			fr.locals[x] = nilPtr
		} else {
			fr.locals[x] = e.arrayView(st, s, int(n))
		}
		return append(outs, stepOut{st: st, fr: fr})

	case *ssa.MakeSlice:
		return e.makeSlice(st, fr, x)

	case *ssa.MakeMap:
		id := e.alloc(st, MapObj{})
		fr.locals[x] = MapV{Obj: id}
		return one(st, fr)

	case *ssa.MakeChan:
		id := e.alloc(st, StructV{})
		fr.locals[x] = ChanV{Obj: id}
		return one(st, fr)

	case *ssa.MakeClosure:
		b := make([]Value, len(x.Bindings))
		for i, bv := range x.Bindings {
			b[i] = e.val(st, fr, bv)
		}
		fr.locals[x] = FuncV{Fn: x.Fn.(*ssa.Function), Bind: b}
		return one(st, fr)

	case *ssa.Lookup:
		return e.lookup(st, fr, x)

	case *ssa.MapUpdate:
		return e.mapUpdate(st, fr, x)

	case *ssa.Range:
		v := e.val(st, fr, x.X)
		switch m := v.(type) {
		case MapV:
			fr.locals[x] = MapIter{Obj: m.Obj, Pos: 0}
		case StringV:
			mm := m
			fr.locals[x] = MapIter{Obj: -2, Pos: 0, Str: &mm}
		default:
			panic(unsupported("range over %T", v))
		}
		return one(st, fr)

	case *ssa.Next:
		return e.next(st, fr, x)

	case *ssa.Call:
		return e.callInstr(st, fr, x)

	case *ssa.Defer:
		fv, args := e.resolveCall(st, fr, &x.Call)
		if fv == nil {
			return []stepOut{e.panicOut(st, fr, "defer of nil interface method")}
		}
		fr.defers = append(fr.defers, deferred{fn: fv, args: args, site: x})
		return one(st, fr)

	case *ssa.Go:
		fv, args := e.resolveCall(st, fr, &x.Call)
		if fv == nil {
			return []stepOut{e.panicOut(st, fr, "go of nil interface method")}
		}
		st.spawned = append(st.spawned, Spawn{Fn: fv, Args: args})
		return one(st, fr)

	case *ssa.RunDefers:
		var outs []stepOut
		states := e.runDefers(st, fr)
		for i, s2 := range states {
			f2 := fr
			if i > 0 {
				f2 = fr.fork()
			}
			f2.defers = nil
			if s2.panicVal != nil {
				outs = append(outs, stepOut{st: s2, fr: f2, panicked: true})
			} else {
				outs = append(outs, stepOut{st: s2, fr: f2})
			}
		}
		return outs

	case *ssa.Send:
		// channel sends are recorded as spawn-like events: value is dropped (outbox modelled by harness)
		if h := e.h; h != nil {
			h.sends++
		}
		st.sends++
		cv := e.val(st, fr, x.Chan)
		e.chanSend(st, cv, e.val(st, fr, x.X))
		return one(st, fr)

	case *ssa.Select:
		return e.selectInstr(st, fr, x)
	}
	panic(unsupported("instruction %T at %s", instr, e.pos(instr)))
}

func (e *Exec) chanSend(st *State, cv Value, v Value) {
	c, ok := cv.(ChanV)
	if !ok || c.Obj < 0 {
		panic(unsupported("send on nil/unknown channel"))
	}
	q, _ := st.heap[c.Obj].(ArrayV)
	nq := append(append([]Value(nil), q.E...), v)
	st.heap[c.Obj] = ArrayV{nq}
}

// arrayView returns a pointer usable as *[n]T for the first n elements of s. When the slice does not cover
// exactly one whole array container the result points to a snapshot copy (sound for the read-only uses that
// conversions like [2]byte(x) compile to; recorded in the stub statistics).
func (e *Exec) arrayView(st *State, s SliceV, n int) Value {
	cont := e.load(st, s.Base)
	switch c := cont.(type) {
	case ByteArr:
		if s.Off.konst && s.Off.cv == 0 && len(c.E) == n {
			return s.Base
		}
	case ArrayV:
		if s.Off.konst && s.Off.cv == 0 && len(c.E) == n {
			return s.Base
		}
	}
	e.stats.Stubs["slice-to-array-pointer:snapshot"]++
	tc := e.tc
	switch c := cont.(type) {
	case ByteArr, ByteBuf:
		content := e.containerContent(st, s.Base)
		if n > bigArr {
			v := ByteBuf{C: &CCopy{Prev: czero, DstOff: tc.Int(0), N: tc.Int(int64(n)), Src: content, SrcOff: s.Off}, Len: tc.Int(int64(n))}
			return Ptr{Obj: e.alloc(st, v)}
		}
		el := make([]*Term, n)
		for i := range el {
			el[i] = e.sel(content, tc.Add(s.Off, tc.Int(int64(i))))
		}
		return Ptr{Obj: e.alloc(st, ByteArr{el})}
	case ArrayV:
		if !s.Off.konst {
			panic(unsupported("slice to array pointer with symbolic offset"))
		}
		el := append([]Value(nil), c.E[s.Off.cv:int(s.Off.cv)+n]...)
		return Ptr{Obj: e.alloc(st, ArrayV{el})}
	}
	panic(unsupported("slice to array pointer of %T", cont))
}

func (e *Exec) unop(st *State, fr *Frame, x *ssa.UnOp) []stepOut {
	tc := e.tc
	v := e.val(st, fr, x.X)
	switch x.Op {
	case token.MUL:
		p, ok := v.(Ptr)
		if !ok {
			panic(unsupported("deref of %T", v))
		}
		if p.IsNil() {
			return []stepOut{e.panicOut(st, fr, "nil pointer dereference at "+e.pos(x))}
		}
		fr.locals[x] = e.load(st, p)
	case token.NOT:
		fr.locals[x] = BoolV{tc.Not(v.(BoolV).T)}
	case token.SUB:
		if b, ok := v.(BV); ok {
			fr.locals[x] = BV{tc.BvNeg(b.T)}
		} else {
			fr.locals[x] = OpaqueV{"float"}
		}
	case token.XOR:
		fr.locals[x] = BV{tc.BvNot(v.(BV).T)}
	case token.ARROW:
		c, ok := v.(ChanV)
		if !ok || c.Obj < 0 {
			panic(unsupported("receive on nil/unknown channel"))
		}
		q, _ := st.heap[c.Obj].(ArrayV)
		if len(q.E) == 0 {
			if e.inSpawned > 0 {
				// a goroutine run by vRunSpawned blocks here for good: its flow ends without running deferred calls
				st.parked = true
				return []stepOut{{st: st, fr: fr, panicked: true}}
			}
			panic(unsupported("receive on empty channel (would block) at %s", e.pos(x)))
		}
		st.heap[c.Obj] = ArrayV{append([]Value(nil), q.E[1:]...)}
		if x.CommaOk {
			fr.locals[x] = TupleV{q.E[0], BoolV{tc.True()}}
		} else {
			fr.locals[x] = q.E[0]
		}
	default:
		panic(unsupported("unop %s", x.Op))
	}
	return one(st, fr)
}

func isSigned(t types.Type) bool {
	_, s, _ := intWidth(t)
	return s
}

func (e *Exec) binop(st *State, fr *Frame, x *ssa.BinOp) []stepOut {
	tc := e.tc
	a := e.val(st, fr, x.X)
	b := e.val(st, fr, x.Y)
	switch x.Op {
	case token.EQL:
		fr.locals[x] = BoolV{e.valueEq(st, a, b)}
		return one(st, fr)
	case token.NEQ:
		fr.locals[x] = BoolV{tc.Not(e.valueEq(st, a, b))}
		return one(st, fr)
	}
	switch av := a.(type) {
	case BV:
		bv := b.(BV)
		signed := isSigned(x.X.Type())
		var r *Term
		switch x.Op {
		case token.ADD:
			r = tc.Bin("bvadd", av.T, bv.T)
		case token.SUB:
			r = tc.Bin("bvsub", av.T, bv.T)
		case token.MUL:
			r = tc.Bin("bvmul", av.T, bv.T)
		case token.AND:
			r = tc.Bin("bvand", av.T, bv.T)
		case token.OR:
			r = tc.Bin("bvor", av.T, bv.T)
		case token.XOR:
			r = tc.Bin("bvxor", av.T, bv.T)
		case token.AND_NOT:
			r = tc.Bin("bvand", av.T, tc.BvNot(bv.T))
		case token.QUO, token.REM:
			cont, outs := e.guard(st, fr, tc.Ne(bv.T, tc.BVConst(0, bv.T.w)), "integer divide by zero at "+e.pos(x))
			if !cont {
				return outs
			}
			op := "bvudiv"
			if x.Op == token.REM {
				op = "bvurem"
			}
			if signed {
				op = "bvsdiv"
				if x.Op == token.REM {
					op = "bvsrem"
				}
			}
			fr.locals[x] = BV{tc.Bin(op, av.T, bv.T)}
			return append(outs, stepOut{st: st, fr: fr})
		case token.SHL, token.SHR:
			cnt := bv.T
			var outs []stepOut
			if isSigned(x.Y.Type()) {
				cont, o := e.guard(st, fr, tc.Sle(tc.BVConst(0, cnt.w), cnt), "negative shift amount at "+e.pos(x))
				outs = o
				if !cont {
					return outs
				}
			}
			w := av.T.w
			var c2 *Term
			switch {
			case cnt.w == w:
				c2 = cnt
			case cnt.w < w:
				c2 = tc.ZExt(cnt, w)
			default:
				big := tc.Ule(tc.BVConst(uint64(w), cnt.w), cnt)
				c2 = tc.Ite(big, tc.BVConst(uint64(w), w), tc.Extract(w-1, 0, cnt))
			}
			op := "bvshl"
			if x.Op == token.SHR {
				op = "bvlshr"
				if signed {
					op = "bvashr"
				}
			}
			fr.locals[x] = BV{tc.Bin(op, av.T, c2)}
			return append(outs, stepOut{st: st, fr: fr})
		case token.LSS, token.LEQ, token.GTR, token.GEQ:
			var op string
			switch x.Op {
			case token.LSS:
				op = "lt"
			case token.LEQ:
				op = "le"
			case token.GTR:
				op = "gt"
			case token.GEQ:
				op = "ge"
			}
			if signed {
				op = "bvs" + op
			} else {
				op = "bvu" + op
			}
			fr.locals[x] = BoolV{tc.Cmp(op, av.T, bv.T)}
			return one(st, fr)
		default:
			panic(unsupported("int binop %s", x.Op))
		}
		fr.locals[x] = BV{r}
		return one(st, fr)
	case StringV:
		bs := b.(StringV)
		switch x.Op {
		case token.ADD:
			fr.locals[x] = e.concatStr(av, bs)
			return one(st, fr)
		case token.LSS, token.LEQ, token.GTR, token.GEQ:
			sa, oka := e.concreteString(av)
			sb, okb := e.concreteString(bs)
			if oka && okb {
				var r bool
				switch x.Op {
				case token.LSS:
					r = sa < sb
				case token.LEQ:
					r = sa <= sb
				case token.GTR:
					r = sa > sb
				case token.GEQ:
					r = sa >= sb
				}
				fr.locals[x] = BoolV{tc.BoolConst(r)}
				return one(st, fr)
			}
			panic(unsupported("ordering of symbolic strings at %s", e.pos(x)))
		}
	case OpaqueV:
		switch x.Op {
		case token.LSS, token.LEQ, token.GTR, token.GEQ:
			fr.locals[x] = BoolV{tc.FreshVar("floatcmp", 0)}
		default:
			fr.locals[x] = OpaqueV{"float"}
		}
		return one(st, fr)
	}
	panic(unsupported("binop %s on %T at %s", x.Op, a, e.pos(x)))
}

func (e *Exec) concatStr(a, b StringV) StringV {
	tc := e.tc
	if a.Len.konst && a.Len.cv == 0 {
		return b
	}
	if b.Len.konst && b.Len.cv == 0 {
		return a
	}
	if sa, ok := e.concreteString(a); ok {
		if sb, ok := e.concreteString(b); ok {
			return e.constString(sa + sb)
		}
	}
	var c Content = &CCopy{Prev: czero, DstOff: tc.Int(0), N: a.Len, Src: a.C, SrcOff: a.Off}
	c = &CCopy{Prev: c, DstOff: a.Len, N: b.Len, Src: b.C, SrcOff: b.Off}
	return StringV{C: c, Off: tc.Int(0), Len: tc.Add(a.Len, b.Len)}
}

// concreteString returns the Go string if s is fully concrete.
func (e *Exec) concreteString(s StringV) (string, bool) {
	if !s.Len.konst || !s.Off.konst {
		return "", false
	}
	n := int(s.Len.cv)
	if n > 1<<20 {
		return "", false
	}
	buf := make([]byte, n)
	for i := 0; i < n; i++ {
		t := e.sel(s.C, e.tc.Int(int64(s.Off.cv)+int64(i)))
		if !t.konst {
			return "", false
		}
		buf[i] = byte(t.cv)
	}
	return string(buf), true
}

// valueEq builds the term a == b (Go semantics for comparable values).
func (e *Exec) valueEq(st *State, a, b Value) *Term {
	tc := e.tc
	switch x := a.(type) {
	case BV:
		return tc.Eq(x.T, b.(BV).T)
	case BoolV:
		return tc.Eq(x.T, b.(BoolV).T)
	case Ptr:
		switch y := b.(type) {
		case Ptr:
			return tc.BoolConst(x.Obj == y.Obj && samePath(x.Path, y.Path) && x.Fn == y.Fn)
		}
	case StringV:
		return e.stringEq(st, x, b.(StringV))
	case ByteArr:
		y := b.(ByteArr)
		r := tc.True()
		for i := range x.E {
			r = tc.And(r, tc.Eq(x.E[i], y.E[i]))
		}
		return r
	case ArrayV:
		y := b.(ArrayV)
		r := tc.True()
		for i := range x.E {
			r = tc.And(r, e.valueEq(st, x.E[i], y.E[i]))
		}
		return r
	case ByteBuf:
		y := b.(ByteBuf)
		return e.stringEq(st, StringV{C: x.C, Off: tc.Int(0), Len: x.Len}, StringV{C: y.C, Off: tc.Int(0), Len: y.Len})
	case StructV:
		y := b.(StructV)
		r := tc.True()
		for i := range x.F {
			r = tc.And(r, e.valueEq(st, x.F[i], y.F[i]))
		}
		return r
	case IfaceV:
		switch y := b.(type) {
		case IfaceV:
			if x.T == nil || y.T == nil {
				return tc.BoolConst(x.T == nil && y.T == nil)
			}
			if !types.Identical(x.T, y.T) {
				return tc.False()
			}
			return e.valueEq(st, x.V, y.V)
		case Ptr: // comparison with nil constant of interface type lowered oddly
			if y.IsNil() {
				return tc.BoolConst(x.T == nil)
			}
		}
	case SliceV:
		// only comparison with nil is legal
		if y, ok := b.(SliceV); ok {
			if y.Base.IsNil() && y.Len.konst && y.Len.cv == 0 {
				return tc.BoolConst(x.Base.IsNil())
			}
			if x.Base.IsNil() {
				return tc.BoolConst(y.Base.IsNil())
			}
		}
	case MapV:
		if y, ok := b.(MapV); ok {
			return tc.BoolConst(x.Obj == y.Obj)
		}
	case FuncV:
		if y, ok := b.(FuncV); ok {
			if x.Nil || y.Nil {
				return tc.BoolConst(x.Nil == y.Nil)
			}
		}
	case ChanV:
		if y, ok := b.(ChanV); ok {
			return tc.BoolConst(x.Obj == y.Obj)
		}
	case OpaqueV:
		return tc.FreshVar("opaqueeq", 0)
	}
	panic(unsupported("equality of %T and %T", a, b))
}

func (e *Exec) stringEq(st *State, a, b StringV) *Term {
	tc := e.tc
	if a.C == b.C && a.Off == b.Off && a.Len == b.Len {
		return tc.True()
	}
	lenEq := tc.Eq(a.Len, b.Len)
	if lenEq.IsFalse() {
		return lenEq
	}
	var n int
	switch {
	case a.Len.konst:
		n = int(a.Len.cv)
	case b.Len.konst:
		n = int(b.Len.cv)
	default:
		// both symbolic: use the declared upper bound of either side
		ub := e.lenBound(a.Len)
		if ub2 := e.lenBound(b.Len); ub2 >= 0 && (ub < 0 || ub2 < ub) {
			ub = ub2
		}
		if ub < 0 || ub > 4096 {
			panic(unsupported("equality of two strings with unbounded symbolic lengths"))
		}
		r := lenEq
		for i := 0; i < ub; i++ {
			it := tc.Int(int64(i))
			r = tc.And(r, tc.Or(tc.Ule(a.Len, it), tc.Eq(e.sel(a.C, tc.Add(a.Off, it)), e.sel(b.C, tc.Add(b.Off, it)))))
		}
		return r
	}
	if n > 1<<16 {
		panic(unsupported("string equality over %d bytes", n))
	}
	r := lenEq
	for i := 0; i < n; i++ {
		it := tc.Int(int64(i))
		r = tc.And(r, tc.Eq(e.sel(a.C, tc.Add(a.Off, it)), e.sel(b.C, tc.Add(b.Off, it))))
		if r.IsFalse() {
			return r
		}
	}
	return r
}

// lenBound returns a declared upper bound for a length term or -1.
func (e *Exec) lenBound(t *Term) int {
	if t.konst {
		return int(t.cv)
	}
	if b, ok := e.bounds[t.id]; ok {
		return b
	}
	switch t.op {
	case "ite":
		a, b := e.lenBound(t.args[1]), e.lenBound(t.args[2])
		if a < 0 || b < 0 {
			return -1
		}
		if a > b {
			return a
		}
		return b
	case "bvadd":
		a, b := e.lenBound(t.args[0]), e.lenBound(t.args[1])
		if a < 0 || b < 0 {
			return -1
		}
		return a + b
	case "zext":
		if t.args[0].w <= 16 {
			return int(mask(t.args[0].w))
		}
	}
	return -1
}

func (e *Exec) convert(st *State, v Value, from, to types.Type) Value {
	tc := e.tc
	fu, tu := from.Underlying(), to.Underlying()
	if tw, _, ok := intWidth(to); ok {
		if b, ok := v.(BV); ok {
			_, fs, _ := intWidth(from)
			if tw <= b.T.w {
				return BV{tc.Extract(tw-1, 0, b.T)}
			}
			if fs {
				return BV{tc.SExt(b.T, tw)}
			}
			return BV{tc.ZExt(b.T, tw)}
		}
		if _, ok := v.(OpaqueV); ok { // float -> int
			return BV{tc.FreshVar("float2int", tw)}
		}
		if p, ok := v.(Ptr); ok { // unsafe.Pointer -> uintptr
			_ = p
			return BV{tc.FreshVar("ptr2int", tw)}
		}
	}
	if tb, ok := tu.(*types.Basic); ok {
		if tb.Info()&types.IsFloat != 0 {
			return OpaqueV{"float"}
		}
		if tb.Info()&types.IsString != 0 {
			switch x := v.(type) {
			case StringV:
				return x
			case SliceV: // []byte or []rune -> string
				if sl, ok := fu.(*types.Slice); ok && isByteType(sl.Elem()) {
					return e.sliceToString(st, x)
				}
			case BV: // rune -> string
				if x.T.konst {
					return e.constString(string(rune(x.T.SVal())))
				}
			}
			panic(unsupported("conversion %s -> string", from))
		}
		if tb.Kind() == types.UnsafePointer {
			return v
		}
	}
	if ts, ok := tu.(*types.Slice); ok {
		if s, ok := v.(StringV); ok {
			if isByteType(ts.Elem()) {
				return e.stringToSlice(st, s)
			}
			if str, ok := e.concreteString(s); ok { // []rune
				rs := []rune(str)
				el := make([]Value, len(rs))
				for i, r := range rs {
					el[i] = BV{tc.BVConst(uint64(r), 32)}
				}
				id := e.alloc(st, ArrayV{el})
				n := tc.Int(int64(len(rs)))
				return SliceV{Base: Ptr{Obj: id}, Off: tc.Int(0), Len: n, Cap: n}
			}
		}
		if s, ok := v.(SliceV); ok {
			return s
		}
	}
	if _, ok := tu.(*types.Pointer); ok {
		return v
	}
	if _, ok := v.(OpaqueV); ok {
		return v
	}
	panic(unsupported("conversion %s -> %s (%T)", from, to, v))
}

// containerContent views a byte container as Content.
func (e *Exec) containerContent(st *State, base Ptr) Content {
	switch c := e.load(st, base).(type) {
	case ByteBuf:
		return c.C
	case ByteArr:
		return &CVec{c.E}
	}
	panic(unsupported("byte view of non-byte container"))
}

func (e *Exec) sliceToString(st *State, s SliceV) StringV {
	if s.Base.IsNil() {
		return StringV{C: czero, Off: e.tc.Int(0), Len: e.tc.Int(0)}
	}
	return StringV{C: e.containerContent(st, s.Base), Off: s.Off, Len: s.Len}
}

func (e *Exec) stringToSlice(st *State, s StringV) SliceV {
	tc := e.tc
	var c Content
	if s.Off.konst && s.Off.cv == 0 {
		c = s.C
	} else {
		c = &CCopy{Prev: czero, DstOff: tc.Int(0), N: s.Len, Src: s.C, SrcOff: s.Off}
	}
	id := e.alloc(st, ByteBuf{C: c, Len: s.Len})
	return SliceV{Base: Ptr{Obj: id}, Off: tc.Int(0), Len: s.Len, Cap: s.Len}
}

func (e *Exec) typeAssert(st *State, fr *Frame, x *ssa.TypeAssert) []stepOut {
	tc := e.tc
	v := e.val(st, fr, x.X).(IfaceV)
	ok := false
	var res Value
	if v.T != nil {
		if types.IsInterface(x.AssertedType) {
			it := x.AssertedType.Underlying().(*types.Interface)
			ok = types.Implements(v.T, it)
			if ok {
				res = v
			}
		} else {
			ok = types.Identical(v.T, x.AssertedType)
			if ok {
				res = v.V
			}
		}
	}
	if x.CommaOk {
		if !ok {
			res = e.zero(x.AssertedType)
		}
		fr.locals[x] = TupleV{res, BoolV{tc.BoolConst(ok)}}
		return one(st, fr)
	}
	if !ok {
		return []stepOut{e.panicOut(st, fr, "interface conversion failed at "+e.pos(x))}
	}
	fr.locals[x] = res
	return one(st, fr)
}

func (e *Exec) indexAddr(st *State, fr *Frame, x *ssa.IndexAddr) []stepOut {
	tc := e.tc
	base := e.val(st, fr, x.X)
	idx := e.idx64(e.val(st, fr, x.Index).(BV), x.Index.Type())
	switch b := base.(type) {
	case SliceV:
		cont, outs := e.guard(st, fr, tc.Ult(idx, b.Len), "index out of range at "+e.pos(x))
		if !cont {
			return outs
		}
		fr.locals[x] = b.Base.With(PathElem{Field: -1, Idx: tc.Add(b.Off, idx)})
		return append(outs, stepOut{st: st, fr: fr})
	case Ptr:
		if b.IsNil() {
			return []stepOut{e.panicOut(st, fr, "nil pointer dereference (index) at "+e.pos(x))}
		}
		n := x.X.Type().Underlying().(*types.Pointer).Elem().Underlying().(*types.Array).Len()
		cont, outs := e.guard(st, fr, tc.Ult(idx, tc.Int(n)), "index out of range at "+e.pos(x))
		if !cont {
			return outs
		}
		fr.locals[x] = b.With(PathElem{Field: -1, Idx: idx})
		return append(outs, stepOut{st: st, fr: fr})
	}
	panic(unsupported("IndexAddr on %T", base))
}

// idx64 widens an index value to 64 bits according to its type.
func (e *Exec) idx64(b BV, t types.Type) *Term {
	if b.T.w == 64 {
		return b.T
	}
	if isSigned(t) {
		return e.tc.SExt(b.T, 64)
	}
	return e.tc.ZExt(b.T, 64)
}

func (e *Exec) index(st *State, fr *Frame, x *ssa.Index) []stepOut {
	tc := e.tc
	base := e.val(st, fr, x.X)
	idx := e.idx64(e.val(st, fr, x.Index).(BV), x.Index.Type())
	switch b := base.(type) {
	case StringV:
		cont, outs := e.guard(st, fr, tc.Ult(idx, b.Len), "string index out of range at "+e.pos(x))
		if !cont {
			return outs
		}
		fr.locals[x] = BV{e.sel(b.C, tc.Add(b.Off, idx))}
		return append(outs, stepOut{st: st, fr: fr})
	case ByteArr:
		cont, outs := e.guard(st, fr, tc.Ult(idx, tc.Int(int64(len(b.E)))), "index out of range at "+e.pos(x))
		if !cont {
			return outs
		}
		fr.locals[x] = BV{e.sel(&CVec{b.E}, idx)}
		return append(outs, stepOut{st: st, fr: fr})
	case ByteBuf:
		cont, outs := e.guard(st, fr, tc.Ult(idx, b.Len), "index out of range at "+e.pos(x))
		if !cont {
			return outs
		}
		fr.locals[x] = BV{e.sel(b.C, idx)}
		return append(outs, stepOut{st: st, fr: fr})
	case ArrayV:
		cont, outs := e.guard(st, fr, tc.Ult(idx, tc.Int(int64(len(b.E)))), "index out of range at "+e.pos(x))
		if !cont {
			return outs
		}
		if idx.konst {
			fr.locals[x] = b.E[idx.cv]
			return append(outs, stepOut{st: st, fr: fr})
		}
		// symbolic index into small value array: ite chain
		var r Value = b.E[len(b.E)-1]
		for i := len(b.E) - 2; i >= 0; i-- {
			r = e.mergeValue(tc.Eq(idx, tc.Int(int64(i))), b.E[i], r)
		}
		fr.locals[x] = r
		return append(outs, stepOut{st: st, fr: fr})
	}
	panic(unsupported("Index on %T", base))
}

func (e *Exec) slice(st *State, fr *Frame, x *ssa.Slice) []stepOut {
	tc := e.tc
	base := e.val(st, fr, x.X)
	get := func(v ssa.Value) *Term {
		if v == nil {
			return nil
		}
		return e.idx64(e.val(st, fr, v).(BV), v.Type())
	}
	lo, hi, mx := get(x.Low), get(x.High), get(x.Max)
	if lo == nil {
		lo = tc.Int(0)
	}
	switch b := base.(type) {
	case StringV:
		if hi == nil {
			hi = b.Len
		}
		ok := tc.And(tc.Ule(lo, hi), tc.Ule(hi, b.Len))
		cont, outs := e.guard(st, fr, ok, "slice bounds out of range (string) at "+e.pos(x))
		if !cont {
			return outs
		}
		fr.locals[x] = StringV{C: b.C, Off: tc.Add(b.Off, lo), Len: tc.Sub(hi, lo)}
		return append(outs, stepOut{st: st, fr: fr})
	case SliceV:
		if hi == nil {
			hi = b.Len
		}
		if mx == nil {
			mx = b.Cap
		}
		ok := tc.And(tc.And(tc.Ule(lo, hi), tc.Ule(hi, mx)), tc.Ule(mx, b.Cap))
		cont, outs := e.guard(st, fr, ok, "slice bounds out of range at "+e.pos(x))
		if !cont {
			return outs
		}
		fr.locals[x] = SliceV{Base: b.Base, Off: tc.Add(b.Off, lo), Len: tc.Sub(hi, lo), Cap: tc.Sub(mx, lo)}
		return append(outs, stepOut{st: st, fr: fr})
	case Ptr: // *array
		if b.IsNil() {
			return []stepOut{e.panicOut(st, fr, "nil pointer dereference (slice of array) at "+e.pos(x))}
		}
		n := tc.Int(x.X.Type().Underlying().(*types.Pointer).Elem().Underlying().(*types.Array).Len())
		if hi == nil {
			hi = n
		}
		if mx == nil {
			mx = n
		}
		ok := tc.And(tc.And(tc.Ule(lo, hi), tc.Ule(hi, mx)), tc.Ule(mx, n))
		cont, outs := e.guard(st, fr, ok, "slice bounds out of range (array) at "+e.pos(x))
		if !cont {
			return outs
		}
		fr.locals[x] = SliceV{Base: b, Off: lo, Len: tc.Sub(hi, lo), Cap: tc.Sub(mx, lo)}
		return append(outs, stepOut{st: st, fr: fr})
	}
	panic(unsupported("Slice on %T", base))
}

func (e *Exec) makeSlice(st *State, fr *Frame, x *ssa.MakeSlice) []stepOut {
	tc := e.tc
	ln := e.idx64(e.val(st, fr, x.Len).(BV), x.Len.Type())
	cp := e.idx64(e.val(st, fr, x.Cap).(BV), x.Cap.Type())
	elem := x.Type().Underlying().(*types.Slice).Elem()
	ok := tc.And(tc.Sle(tc.Int(0), ln), tc.Sle(ln, cp))
	ok = tc.And(ok, tc.Sle(cp, tc.Int(1<<40)))
	cont, outs := e.guard(st, fr, ok, "makeslice: len out of range at "+e.pos(x))
	if !cont {
		return outs
	}
	if isByteType(elem) {
		id := e.alloc(st, ByteBuf{C: czero, Len: cp})
		fr.locals[x] = SliceV{Base: Ptr{Obj: id}, Off: tc.Int(0), Len: ln, Cap: cp}
		return append(outs, stepOut{st: st, fr: fr})
	}
	if !cp.konst || !ln.konst {
		// concretize by forking over feasible values of cap/len
		var res []stepOut
		res = append(res, outs...)
		for _, cs := range e.concretize(st, fr, cp, 64) {
			for _, cs2 := range e.concretize(cs.st, cs.fr, ln, 64) {
				n := int(cs.v)
				el := make([]Value, n)
				z := e.zero(elem)
				for i := range el {
					el[i] = z
				}
				id := e.alloc(cs2.st, ArrayV{el})
				cs2.fr.locals[x] = SliceV{Base: Ptr{Obj: id}, Off: tc.Int(0), Len: tc.Int(int64(cs2.v)), Cap: tc.Int(int64(cs.v))}
				res = append(res, stepOut{st: cs2.st, fr: cs2.fr})
			}
		}
		return res
	}
	n := int(cp.cv)
	if n > 1<<20 {
		panic(unsupported("make of %d non-byte elements", n))
	}
	el := make([]Value, n)
	z := e.zero(elem)
	for i := range el {
		el[i] = z
	}
	id := e.alloc(st, ArrayV{el})
	fr.locals[x] = SliceV{Base: Ptr{Obj: id}, Off: tc.Int(0), Len: ln, Cap: cp}
	return append(outs, stepOut{st: st, fr: fr})
}

type concOut struct {
	st *State
	fr *Frame
	v  uint64
}

// concretize forks st over the feasible values of t (at most limit).
func (e *Exec) concretize(st *State, fr *Frame, t *Term, limit int) []concOut {
	if t.konst {
		return []concOut{{st, fr, t.cv}}
	}
	var outs []concOut
	excl := append([]*Term(nil), st.pc...)
	for i := 0; ; i++ {
		if i >= limit {
			panic(unsupported("concretize: more than %d feasible values", limit))
		}
		r := e.sol.CheckKeep(excl)
		if r == "unsat" {
			break
		}
		if r != "sat" {
			panic(unsupported("concretize: solver %s", r))
		}
		vals, err := e.sol.Eval([]*Term{t})
		e.sol.Pop()
		if err != nil {
			panic(unsupported("concretize: %v", err))
		}
		v := vals[0]
		k := e.tc.BVConst(v, t.w)
		s2 := st.fork()
		s2.assume(e.tc.Eq(t, k))
		s2.tag += fmt.Sprintf("|c%d=%d", t.id, v)
		outs = append(outs, concOut{s2, fr.fork(), v})
		excl = append(excl, e.tc.Ne(t, k))
	}
	e.stats.Forks += len(outs)
	return outs
}

// --- maps --------------------------------------------------------------------------

func (e *Exec) lookup(st *State, fr *Frame, x *ssa.Lookup) []stepOut {
	tc := e.tc
	base := e.val(st, fr, x.X)
	if s, ok := base.(StringV); ok {
		idx := e.idx64(e.val(st, fr, x.Index).(BV), x.Index.Type())
		cont, outs := e.guard(st, fr, tc.Ult(idx, s.Len), "string index out of range at "+e.pos(x))
		if !cont {
			return outs
		}
		fr.locals[x] = BV{e.sel(s.C, tc.Add(s.Off, idx))}
		return append(outs, stepOut{st: st, fr: fr})
	}
	m := base.(MapV)
	e.noteMapAccess(st, m, false, x)
	key := e.val(st, fr, x.Index)
	vt := x.X.Type().Underlying().(*types.Map).Elem()
	var res Value = e.zero(vt)
	found := tc.False()
	setRes := func(s *State, f *Frame, v Value, ok *Term) {
		if x.CommaOk {
			f.locals[x] = TupleV{v, BoolV{ok}}
		} else {
			f.locals[x] = v
		}
	}
	if m.Obj >= 0 {
		mo := st.heap[m.Obj].(MapObj)
		mergeOK := true
		func() {
			defer func() {
				if r := recover(); r != nil {
					if _, isU := r.(Unsupported); isU {
						mergeOK = false
						return
					}
					panic(r)
				}
			}()
			for i := len(mo.Keys) - 1; i >= 0; i-- {
				c := e.valueEq(st, key, mo.Keys[i])
				if c.IsFalse() {
					continue
				}
				if c.IsTrue() {
					res, found = mo.Vals[i], tc.True()
					continue
				}
				res = e.mergeValueOrFail(c, mo.Vals[i], res, "map lookup with symbolic key")
				found = tc.Or(c, found)
			}
		}()
		if !mergeOK {
			// fork per matching entry (later entries shadow earlier ones cannot happen: keys are distinct)
			var outs []stepOut
			for i := range mo.Keys {
				c := e.valueEq(st, key, mo.Keys[i])
				if c.IsFalse() {
					continue
				}
				if c.IsTrue() {
					setRes(st, fr, mo.Vals[i], tc.True())
					return append(outs, stepOut{st: st, fr: fr})
				}
				if e.feasible(st, c) {
					s2, f2 := st.fork(), fr.fork()
					s2.assume(c)
					setRes(s2, f2, mo.Vals[i], tc.True())
					outs = append(outs, stepOut{st: s2, fr: f2})
					e.stats.Forks++
				}
				nc := tc.Not(c)
				if !e.feasible(st, nc) {
					return outs
				}
				st.assume(nc)
			}
			setRes(st, fr, e.zero(vt), tc.False())
			return append(outs, stepOut{st: st, fr: fr})
		}
	}
	setRes(st, fr, res, found)
	return one(st, fr)
}

func (e *Exec) mergeValueOrFail(c *Term, a, b Value, what string) (r Value) {
	defer func() {
		if x := recover(); x != nil {
			if mf, ok := x.(mergeFail); ok {
				panic(unsupported("%s: cannot merge values (%s)", what, mf.why))
			}
			panic(x)
		}
	}()
	if sameValue(a, b) {
		return a
	}
	return e.mergeValue(c, a, b)
}

func (e *Exec) mapUpdate(st *State, fr *Frame, x *ssa.MapUpdate) []stepOut {
	m := e.val(st, fr, x.Map).(MapV)
	if m.Obj < 0 {
		return []stepOut{e.panicOut(st, fr, "assignment to entry in nil map at "+e.pos(x))}
	}
	key := e.val(st, fr, x.Key)
	v := e.val(st, fr, x.Value)
	return e.mapStore(st, fr, m, key, v)
}

// mapStore performs m[key]=v, forking when key equality with existing entries is symbolic.
func (e *Exec) mapStore(st *State, fr *Frame, m MapV, key, v Value) []stepOut {
	e.noteMapAccess(st, m, true, nil)
	mo := st.heap[m.Obj].(MapObj)
	var outs []stepOut
	for i := range mo.Keys {
		c := e.valueEq(st, key, mo.Keys[i])
		if c.IsFalse() {
			continue
		}
		if c.IsTrue() {
			nv := append([]Value(nil), mo.Vals...)
			nv[i] = v
			st.heap[m.Obj] = MapObj{mo.Keys, nv}
			return append(outs, stepOut{st: st, fr: fr})
		}
		// symbolic: fork
		if e.feasible(st, c) {
			s2, f2 := st.fork(), fr.fork()
			s2.assume(c)
			nv := append([]Value(nil), mo.Vals...)
			nv[i] = v
			s2.heap[m.Obj] = MapObj{mo.Keys, nv}
			outs = append(outs, stepOut{st: s2, fr: f2})
		}
		nc := e.tc.Not(c)
		if e.feasible(st, nc) {
			st.assume(nc)
			continue
		}
		return outs
	}
	mo = st.heap[m.Obj].(MapObj)
	nk := append(append([]Value(nil), mo.Keys...), key)
	nv := append(append([]Value(nil), mo.Vals...), v)
	st.heap[m.Obj] = MapObj{nk, nv}
	return append(outs, stepOut{st: st, fr: fr})
}

func (e *Exec) mapDelete(st *State, fr *Frame, m MapV, key Value) []stepOut {
	if m.Obj < 0 {
		return one(st, fr)
	}
	e.noteMapAccess(st, m, true, nil)
	mo := st.heap[m.Obj].(MapObj)
	var outs []stepOut
	for i := range mo.Keys {
		c := e.valueEq(st, key, mo.Keys[i])
		if c.IsFalse() {
			continue
		}
		del := func(s *State) {
			mo := s.heap[m.Obj].(MapObj)
			nk := append(append([]Value(nil), mo.Keys[:i]...), mo.Keys[i+1:]...)
			nv := append(append([]Value(nil), mo.Vals[:i]...), mo.Vals[i+1:]...)
			s.heap[m.Obj] = MapObj{nk, nv}
		}
		if c.IsTrue() {
			del(st)
			return append(outs, stepOut{st: st, fr: fr})
		}
		if e.feasible(st, c) {
			s2, f2 := st.fork(), fr.fork()
			s2.assume(c)
			del(s2)
			outs = append(outs, stepOut{st: s2, fr: f2})
		}
		nc := e.tc.Not(c)
		if e.feasible(st, nc) {
			st.assume(nc)
			continue
		}
		return outs
	}
	return append(outs, stepOut{st: st, fr: fr})
}

func (e *Exec) next(st *State, fr *Frame, x *ssa.Next) []stepOut {
	tc := e.tc
	it := e.val(st, fr, x.Iter).(MapIter)
	if x.IsString {
		s := *it.Str
		str, ok := e.concreteString(s)
		if !ok {
			panic(unsupported("range over symbolic string at %s", e.pos(x)))
		}
		if it.Pos >= len(str) {
			fr.locals[x] = TupleV{BoolV{tc.False()}, BV{tc.Int(0)}, BV{tc.BVConst(0, 32)}}
			return one(st, fr)
		}
		for i, r := range str[it.Pos:] {
			_ = i
			sz := len(string(r))
			if r == 0xFFFD {
				sz = 1
			}
			fr.locals[x] = TupleV{BoolV{tc.True()}, BV{tc.Int(int64(it.Pos))}, BV{tc.BVConst(uint64(r), 32)}}
			fr.locals[x.Iter] = MapIter{Obj: -2, Pos: it.Pos + sz, Str: it.Str}
			break
		}
		return one(st, fr)
	}
	mt := x.Iter.(*ssa.Range).X.Type().Underlying().(*types.Map)
	if it.Obj < 0 {
		fr.locals[x] = TupleV{BoolV{tc.False()}, e.zero(mt.Key()), e.zero(mt.Elem())}
		return one(st, fr)
	}
	mo := st.heap[it.Obj].(MapObj)
	if it.Pos >= len(mo.Keys) {
		fr.locals[x] = TupleV{BoolV{tc.False()}, e.zero(mt.Key()), e.zero(mt.Elem())}
		return one(st, fr)
	}
	fr.locals[x] = TupleV{BoolV{tc.True()}, mo.Keys[it.Pos], mo.Vals[it.Pos]}
	fr.locals[x.Iter] = MapIter{Obj: it.Obj, Pos: it.Pos + 1}
	return one(st, fr)
}

// noteMapAccess records accesses to maps that existed before the running goroutine was started (shared with whoever
// started it) made while no lock is held; vSharedMapRaces counts the maps touched that way by two goroutines, at least
// one of them writing - Go's runtime aborts the whole process on such an access pair.
func (e *Exec) noteMapAccess(st *State, m MapV, write bool, at ssa.Instruction) {
	if e.inSpawned == 0 || st.locks > 0 || m.Obj < 0 || m.Obj > e.spawnWatermark {
		return
	}
	where := ""
	if len(e.stack) > 0 {
		where = e.stack[len(e.stack)-1]
	}
	for _, a := range st.unlockedMapAccess {
		if a.g == e.spawnSeq && a.obj == m.Obj && a.write == write {
			return
		}
	}
	st.unlockedMapAccess = append(st.unlockedMapAccess, mapAccess{g: e.spawnSeq, obj: m.Obj, write: write, where: where})
}

// selectInstr: receive cases only. A case is ready when its channel has a queued value; a nil channel is never
// ready. Non-blocking select falls to default; a blocking select with nothing ready parks (inside vRunSpawned).
func (e *Exec) selectInstr(st *State, fr *Frame, x *ssa.Select) []stepOut {
	tc := e.tc
	for i, sc := range x.States {
		if sc.Dir != types.RecvOnly {
			panic(unsupported("select with a send case at %s", e.pos(x)))
		}
		c, ok := e.val(st, fr, sc.Chan).(ChanV)
		if !ok {
			panic(unsupported("select on unknown channel value at %s", e.pos(x)))
		}
		if c.Obj < 0 {
			continue
		}
		q, _ := st.heap[c.Obj].(ArrayV)
		if len(q.E) == 0 {
			continue
		}
		st.heap[c.Obj] = ArrayV{append([]Value(nil), q.E[1:]...)}
		res := []Value{BV{tc.Int(int64(i))}, BoolV{tc.True()}}
		for j, sc2 := range x.States {
			if sc2.Dir != types.RecvOnly {
				continue
			}
			if j == i {
				res = append(res, q.E[0])
			} else {
				res = append(res, e.zero(sc2.Chan.Type().Underlying().(*types.Chan).Elem()))
			}
		}
		fr.locals[x] = TupleV(res)
		return one(st, fr)
	}
	if !x.Blocking {
		res := []Value{BV{tc.Int(-1)}, BoolV{tc.False()}}
		for _, sc := range x.States {
			if sc.Dir == types.RecvOnly {
				res = append(res, e.zero(sc.Chan.Type().Underlying().(*types.Chan).Elem()))
			}
		}
		fr.locals[x] = TupleV(res)
		return one(st, fr)
	}
	if e.inSpawned > 0 {
		st.parked = true
		return []stepOut{{st: st, fr: fr, panicked: true}}
	}
	panic(unsupported("blocking select with no ready case at %s", e.pos(x)))
}
