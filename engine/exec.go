package main

import (
	"fmt"
	"go/types"
	"os"
	"sort"
	"strings"
	"time"

	"golang.org/x/tools/go/ssa"
)

type Options struct {
	NoMerge  bool
	Unroll   int
	MaxDepth int
	Verbose  bool
	Concrete bool // concrete validation mode: nondets come from a model
}

type Stats struct {
	Instrs    int
	Items     int
	Merges    int
	Forks     int
	Calls     int
	Paths     int
	Funcs     map[string]int
	Stubs     map[string]int
	LazyGlobs map[string]int
}

type PathRes struct {
	st       *State
	rets     []Value
	panicked bool
	fr       *Frame // frame of a panicking path (for running its defers)
}

type Outcome = PathRes

type Intrinsic func(e *Exec, st *State, fn *ssa.Function, args []Value) []Outcome

type Exec struct {
	prog           *ssa.Program
	tc             *TermCtx
	sol            *Solver
	xsolSpent      time.Duration // wall time given to the second solver in this harness (capped)
	xsol           *Solver       // optional second solver for assertion obligations (thorough tier)
	opts           Options
	stats          Stats
	nextObj        int
	sentinels      map[string]int
	pools          map[int]int
	inSpawned      int
	spawnSeq       int // sequence number of the goroutine vRunSpawned is running
	spawnWatermark int // objects with a larger id were allocated by the running goroutine itself
	curDepth       int
	lastNow        *Term
	deadline       time.Time
	stack          []string
	curInstr       ssa.Instruction
	tier           string
	stubFns        []*ssa.Function
	bounds         map[int]int
	harnessAPI     map[string]Intrinsic
	globals        map[*ssa.Global]int
	selMemo        map[selKey]*Term
	infos          map[*ssa.Function]*fnInfo
	intrinsics     map[string]Intrinsic
	overrides      map[string]*ssa.Function
	initPkgs       map[string]bool
	h              *HarnessRun // current harness context
	unroll         int
}

type fnInfo struct {
	order   []int // order[block.Index] = priority (RPO-like, loop exits after bodies)
	loopMax []int // for a loop header: the largest order of any block of its loop body (else -1)
}

func NewExec(prog *ssa.Program, opts Options) *Exec {
	e := &Exec{prog: prog, opts: opts, globals: map[*ssa.Global]int{}, selMemo: map[selKey]*Term{}, infos: map[*ssa.Function]*fnInfo{}}
	e.stats.Funcs = map[string]int{}
	e.stats.Stubs = map[string]int{}
	e.stats.LazyGlobs = map[string]int{}
	e.tc = NewTermCtx()
	e.intrinsics = map[string]Intrinsic{}
	e.overrides = map[string]*ssa.Function{}
	e.initPkgs = map[string]bool{}
	e.bounds = map[int]int{}
	registerHarnessAPI(e)
	if e.opts.Unroll == 0 {
		e.opts.Unroll = 80
	}
	if e.opts.MaxDepth == 0 {
		e.opts.MaxDepth = 120
	}
	e.unroll = e.opts.Unroll
	registerIntrinsics(e)
	return e
}

// --- function CFG ordering -------------------------------------------------------

func (e *Exec) info(fn *ssa.Function) *fnInfo {
	if fi, ok := e.infos[fn]; ok {
		return fi
	}
	n := len(fn.Blocks)
	fi := &fnInfo{order: make([]int, n)}
	// natural loops: for back edge l->h (h dominates l) body = nodes reaching l without passing h
	loopOf := make([]map[int]bool, n) // innermost-ish loop body per block (union of loops containing it, smallest)
	type loop struct{ body map[int]bool }
	var loops []loop
	for _, b := range fn.Blocks {
		for _, s := range b.Succs {
			if s.Dominates(b) {
				body := map[int]bool{s.Index: true}
				stack := []*ssa.BasicBlock{b}
				for len(stack) > 0 {
					x := stack[len(stack)-1]
					stack = stack[:len(stack)-1]
					if body[x.Index] {
						continue
					}
					body[x.Index] = true
					for _, p := range x.Preds {
						stack = append(stack, p)
					}
				}
				loops = append(loops, loop{body})
			}
		}
	}
	for i := 0; i < n; i++ {
		for _, l := range loops {
			if l.body[i] && (loopOf[i] == nil || len(l.body) < len(loopOf[i])) {
				loopOf[i] = l.body
			}
		}
	}
	// DFS post-order visiting loop-exit successors first
	visited := make([]bool, n)
	var post []int
	var dfs func(b *ssa.BasicBlock)
	dfs = func(b *ssa.BasicBlock) {
		visited[b.Index] = true
		succs := append([]*ssa.BasicBlock(nil), b.Succs...)
		// count how many loops containing b also contain s; fewer = exits more loops = visit first
		depthIn := func(s *ssa.BasicBlock) int {
			c := 0
			for _, l := range loops {
				if l.body[b.Index] && l.body[s.Index] {
					c++
				}
			}
			return c
		}
		sort.SliceStable(succs, func(i, j int) bool { return depthIn(succs[i]) < depthIn(succs[j]) })
		for _, s := range succs {
			if !visited[s.Index] {
				dfs(s)
			}
		}
		post = append(post, b.Index)
	}
	if n > 0 {
		dfs(fn.Blocks[0])
	}
	for i := range fi.order {
		fi.order[i] = n + i // unreachable blocks last
	}
	for k, bi := range post {
		fi.order[bi] = len(post) - 1 - k
	}
	fi.loopMax = make([]int, n)
	for i := range fi.loopMax {
		fi.loopMax[i] = -1
	}
	for _, b := range fn.Blocks {
		for _, s := range b.Succs {
			if s.Dominates(b) { // back edge b -> s: s is a header
				for _, l := range loops {
					if !l.body[s.Index] || !l.body[b.Index] {
						continue
					}
					for bi := range l.body {
						if fi.order[bi] > fi.loopMax[s.Index] && fi.order[bi] < n {
							fi.loopMax[s.Index] = fi.order[bi]
						}
					}
				}
			}
		}
	}
	e.infos[fn] = fi
	return fi
}

// --- running a frame ---------------------------------------------------------------

type item struct {
	st   *State
	fr   *Frame
	blk  *ssa.BasicBlock
	idx  int
	back bool // arrived at a loop header over a back edge: waits until the rest of the loop body has caught up
}

// prio orders the work list: reverse post-order, except that a state that has just come round a loop waits at the
// header until every state still inside the loop body has arrived there too (so they can be merged per iteration).
func (fi *fnInfo) prio(it *item) int {
	if it.back && fi.loopMax[it.blk.Index] >= 0 {
		return 2*fi.loopMax[it.blk.Index] + 1
	}
	return 2 * fi.order[it.blk.Index]
}

func (e *Exec) runFrame(st *State, fr *Frame) []PathRes {
	fi := e.info(fr.fn)
	work := []*item{{st: st, fr: fr, blk: fr.fn.Blocks[0]}}
	var done []PathRes
	for len(work) > 0 {
		// pick minimal key
		best := 0
		for i := 1; i < len(work); i++ {
			a, b := work[i], work[best]
			pa, pb := fi.prio(a), fi.prio(b)
			if pa < pb || (pa == pb && a.blk == b.blk && a.idx < b.idx) || (pa == pb && a.blk != b.blk && fi.order[a.blk.Index] < fi.order[b.blk.Index]) {
				best = i
			}
		}
		key := work[best]
		var group, rest []*item
		for _, it := range work {
			if it.blk == key.blk && it.idx == key.idx {
				group = append(group, it)
			} else {
				rest = append(rest, it)
			}
		}
		work = rest
		if len(group) > 1 {
			group = e.mergeItems(group)
		}
		for _, it := range group {
			items, res := e.execBlock(it)
			work = append(work, items...)
			done = append(done, res...)
		}
	}
	return done
}

func (e *Exec) mergeItems(group []*item) []*item {
	var out []*item
	for _, it := range group {
		merged := false
		for i, o := range out {
			ms, c, ok := e.tryMergeStates(o.st, it.st)
			if !ok {
				continue
			}
			mf, ok := e.tryMergeFrames(c, o.fr, it.fr)
			if !ok {
				continue
			}
			out[i] = &item{st: ms, fr: mf, blk: o.blk, idx: o.idx, back: o.back}
			merged = true
			break
		}
		if !merged {
			out = append(out, it)
		}
	}
	return out
}

type stepOut struct {
	st       *State
	fr       *Frame
	panicked bool
}

// execBlock executes instructions of it.blk from it.idx. Returns new work items and finished paths.
func (e *Exec) execBlock(it *item) (items []*item, done []PathRes) {
	st, fr, blk := it.st, it.fr, it.blk
	e.stats.Items++
	for i := it.idx; i < len(blk.Instrs); i++ {
		instr := blk.Instrs[i]
		e.stats.Instrs++
		e.curInstr = instr
		if e.stats.Instrs&0x3ff == 0 && !e.deadline.IsZero() && time.Now().After(e.deadline) {
			panic(unsupported("harness time budget exceeded (the exploration is reported as not finished, never as a pass of the remaining obligations)"))
		}
		switch x := instr.(type) {
		case *ssa.Phi:
			continue // evaluated on the edge
		case *ssa.Jump:
			items = append(items, e.enter(st, fr, blk, blk.Succs[0])...)
			return
		case *ssa.If:
			c := e.val(st, fr, x.Cond).(BoolV).T
			items = append(items, e.branch(st, fr, blk, c)...)
			return
		case *ssa.Return:
			rets := make([]Value, len(x.Results))
			for j, r := range x.Results {
				rets[j] = e.val(st, fr, r)
			}
			done = append(done, PathRes{st: st, rets: rets})
			return
		case *ssa.Panic:
			v := e.val(st, fr, x.X)
			st.panicVal = v
			st.panicMsg = "explicit panic at " + e.pos(instr)
			done = append(done, PathRes{st: st, panicked: true, fr: fr})
			return
		}
		outs := e.execInstr(st, fr, instr)
		if len(outs) == 1 && !outs[0].panicked {
			st, fr = outs[0].st, outs[0].fr
			continue
		}
		for _, o := range outs {
			if o.panicked {
				done = append(done, PathRes{st: o.st, panicked: true, fr: o.fr})
			} else {
				items = append(items, &item{st: o.st, fr: o.fr, blk: blk, idx: i + 1})
			}
		}
		return
	}
	panic(unsupported("block without terminator in %s", fr.fn))
}

// enter moves along edge pred->succ, evaluating phis.
func (e *Exec) enter(st *State, fr *Frame, pred, succ *ssa.BasicBlock) []*item {
	if succ.Dominates(pred) { // back edge: succ is a loop header
		fr.visits[succ.Index]++
		if fr.visits[succ.Index] > e.unroll {
			e.h.unwindHit(e, st, fr.fn, succ)
			return nil
		}
	} else if fr.visits[succ.Index] != 0 { // (re-)entering a loop from outside
		fr.visits[succ.Index] = 0
	}
	pi := -1
	for k, p := range succ.Preds {
		if p == pred {
			pi = k
			break
		}
	}
	var phis []*ssa.Phi
	var vals []Value
	for _, in := range succ.Instrs {
		ph, ok := in.(*ssa.Phi)
		if !ok {
			break
		}
		phis = append(phis, ph)
		vals = append(vals, e.val(st, fr, ph.Edges[pi]))
	}
	for k, ph := range phis {
		fr.locals[ph] = vals[k]
	}
	return []*item{{st: st, fr: fr, blk: succ, idx: len(phis), back: succ.Dominates(pred)}}
}

func (e *Exec) feasible(st *State, extra *Term) bool {
	if extra.IsFalse() {
		return false
	}
	if !e.deadline.IsZero() && time.Now().After(e.deadline) {
		panic(unsupported("harness time budget exceeded (the exploration is reported as not finished, never as a pass of the remaining obligations)"))
	}
	q := append(append([]*Term(nil), st.pc...), extra)
	before := e.sol.Stats.Millis
	r := e.sol.Check(q)
	if d := e.sol.Stats.Millis - before; d > 500 && debugTrace {
		where := ""
		if e.curInstr != nil {
			where = e.pos(e.curInstr) + ": " + e.curInstr.String()
		}
		fmt.Fprintf(os.Stderr, "SLOW feasibility %dms (%s) pc=%d extra-size=%d at %s\n", d, r, len(st.pc), extra.Size(), where)
	}
	return r != "unsat"
}

func (e *Exec) branch(st *State, fr *Frame, blk *ssa.BasicBlock, c *Term) []*item {
	if c.IsTrue() {
		return e.enter(st, fr, blk, blk.Succs[0])
	}
	if c.IsFalse() {
		return e.enter(st, fr, blk, blk.Succs[1])
	}
	nc := e.tc.Not(c)
	f0 := e.feasible(st, c)
	if !f0 {
		return e.enter(st, fr, blk, blk.Succs[1])
	}
	f1 := e.feasible(st, nc)
	if !f1 {
		return e.enter(st, fr, blk, blk.Succs[0])
	}
	e.stats.Forks++
	st1 := st.fork()
	fr1 := fr.fork()
	st.assume(c)
	st1.assume(nc)
	a := e.enter(st, fr, blk, blk.Succs[0])
	b := e.enter(st1, fr1, blk, blk.Succs[1])
	return append(a, b...)
}

func (e *Exec) pos(instr ssa.Instruction) string {
	p := e.prog.Fset.Position(instr.Pos())
	fn := ""
	if instr.Parent() != nil {
		fn = instr.Parent().String()
	}
	if !p.IsValid() {
		return fn
	}
	f := p.Filename
	if i := strings.LastIndex(f, "/"); i >= 0 {
		f = f[i+1:]
	}
	return fmt.Sprintf("%s (%s:%d)", fn, f, p.Line)
}

// --- values of operands ------------------------------------------------------------

func (e *Exec) val(st *State, fr *Frame, v ssa.Value) Value {
	switch x := v.(type) {
	case *ssa.Const:
		return e.constVal(x)
	case *ssa.Global:
		return Ptr{Obj: e.globalObj(st, x)}
	case *ssa.Function:
		return FuncV{Fn: x}
	case *ssa.Builtin:
		panic(unsupported("builtin %s as value", x.Name()))
	}
	if r, ok := fr.locals[v]; ok {
		return r
	}
	panic(unsupported("no value for %s (%T) in %s", v.Name(), v, fr.fn))
}

func (e *Exec) constVal(c *ssa.Const) Value {
	t := c.Type()
	if c.Value == nil {
		return e.zero(t)
	}
	if w, _, ok := intWidth(t); ok {
		if i, exact := constInt64(c); exact {
			return BV{e.tc.BVConst(uint64(i), w)}
		}
		return BV{e.tc.BVConst(c.Uint64(), w)}
	}
	switch u := t.Underlying().(type) {
	case *types.Basic:
		switch {
		case u.Info()&types.IsBoolean != 0:
			return BoolV{e.tc.BoolConst(constBool(c))}
		case u.Info()&types.IsString != 0:
			return e.constString(constStr(c))
		case u.Info()&types.IsFloat != 0:
			return OpaqueV{"float:" + c.Value.ExactString()}
		}
	}
	panic(unsupported("constant %s of type %s", c, t))
}

func (e *Exec) constString(s string) StringV {
	return StringV{C: &CConst{[]byte(s)}, Off: e.tc.Int(0), Len: e.tc.Int(int64(len(s)))}
}

func (e *Exec) globalObj(st *State, g *ssa.Global) int {
	id, ok := e.globals[g]
	if !ok {
		e.nextObj++
		id = e.nextObj
		e.globals[g] = id
	}
	if _, ok := st.heap[id]; !ok {
		st.heap[id] = e.initialGlobal(st, g)
	}
	return id
}

// initialGlobal gives the value of a global whose package init was not run.
func (e *Exec) initialGlobal(st *State, g *ssa.Global) Value {
	t := g.Type().(*types.Pointer).Elem()
	name := g.Pkg.Pkg.Path() + "." + g.Name()
	if !e.initPkgs[g.Pkg.Pkg.Path()] {
		e.stats.LazyGlobs[name]++
		if a, ok := globalAlias[name]; ok {
			name = a
			// if the aliased package was initialised for real, use its actual value
			if i := strings.LastIndex(a, "."); i > 0 && e.initPkgs[a[:i]] {
				for _, p := range e.prog.AllPackages() {
					if p.Pkg.Path() == a[:i] {
						if tg := p.Var(a[i+1:]); tg != nil {
							return e.load(st, Ptr{Obj: e.globalObj(st, tg)})
						}
					}
				}
			}
		}
		if types.Identical(t, errorType) {
			return e.sentinelError(st, name)
		}
	}
	return e.zero(t)
}

var errorType = types.Universe.Lookup("error").Type()

var globalAlias = map[string]string{
	"os.ErrNotExist":      "internal/oserror.ErrNotExist",
	"io/fs.ErrNotExist":   "internal/oserror.ErrNotExist",
	"os.ErrExist":         "internal/oserror.ErrExist",
	"io/fs.ErrExist":      "internal/oserror.ErrExist",
	"os.ErrPermission":    "internal/oserror.ErrPermission",
	"io/fs.ErrPermission": "internal/oserror.ErrPermission",
	"os.ErrClosed":        "internal/oserror.ErrClosed",
	"io/fs.ErrClosed":     "internal/oserror.ErrClosed",
	"os.ErrInvalid":       "internal/oserror.ErrInvalid",
	"io/fs.ErrInvalid":    "internal/oserror.ErrInvalid",
}

// sentinelError builds (once per name) an *errors.errorString with the global's name as text.
func (e *Exec) sentinelError(st *State, name string) Value {
	return e.makeError(st, "sentinel:"+name, name)
}

// makeError returns an error interface value holding *errors.errorString{msg}; key!="" shares the object.
func (e *Exec) makeError(st *State, key, msg string) Value {
	errPkg := e.prog.ImportedPackage("errors")
	if errPkg == nil {
		panic(unsupported("package errors not loaded"))
	}
	et := errPkg.Type("errorString").Type()
	var id int
	if key != "" {
		if g, ok := e.sentinels[key]; ok {
			id = g
		} else {
			e.nextObj++
			id = e.nextObj
			if e.sentinels == nil {
				e.sentinels = map[string]int{}
			}
			e.sentinels[key] = id
		}
		if _, ok := st.heap[id]; !ok {
			st.heap[id] = StructV{[]Value{e.constString(msg)}}
		}
	} else {
		id = e.alloc(st, StructV{[]Value{e.constString(msg)}})
	}
	return IfaceV{T: types.NewPointer(et), V: Ptr{Obj: id}}
}

// makeErrorStr is makeError with a symbolic message.
func (e *Exec) makeErrorStr(st *State, msg StringV) Value {
	errPkg := e.prog.ImportedPackage("errors")
	et := errPkg.Type("errorString").Type()
	id := e.alloc(st, StructV{[]Value{msg}})
	return IfaceV{T: types.NewPointer(et), V: Ptr{Obj: id}}
}

// --- calls -------------------------------------------------------------------------

func (e *Exec) callValue(st *State, fv Value, args []Value, depth int) []Outcome {
	f, ok := fv.(FuncV)
	if !ok {
		panic(unsupported("call of %T", fv))
	}
	if f.Nil || f.Fn == nil {
		st.panicVal = e.panicString("nil function call")
		st.panicMsg = "nil func call"
		return []Outcome{{st: st, panicked: true}}
	}
	return e.callFunction(st, f.Fn, args, f.Bind, depth)
}

func (e *Exec) panicString(s string) Value {
	return IfaceV{T: types.Typ[types.String], V: e.constString(s)}
}

func fnKey(fn *ssa.Function) string {
	s := fn.String()
	if o := fn.Origin(); o != nil {
		s = o.String()
	}
	return s
}

func (e *Exec) callFunction(st *State, fn *ssa.Function, args []Value, bind []Value, depth int) []Outcome {
	e.stats.Calls++
	if depth > e.opts.MaxDepth {
		panic(unsupported("call depth exceeded at %s", fn))
	}
	key := fnKey(fn)
	if o, ok := e.overrides[key]; ok && o != fn {
		e.stats.Stubs["override:"+key]++
		fn = o
		key = fnKey(fn)
	}
	if in, ok := e.intrinsics[key]; ok {
		e.stats.Stubs[key]++
		e.curDepth = depth
		return in(e, st, fn, args)
	}
	if strings.HasSuffix(key, ".init") && fn.Synthetic != "" && fn.Pkg != nil {
		// package initializer of a dependency: run only for allow-listed packages
		if !e.initPkgs[fn.Pkg.Pkg.Path()] {
			return []Outcome{{st: st}}
		}
	}
	if len(fn.Blocks) == 0 && fn.Pkg != nil && fn.Pkg.Pkg.Path() == "sync/atomic" {
		return e.atomicOp(st, fn, args)
	}
	if fn.Pkg != nil && noopPkgs[fn.Pkg.Pkg.Path()] {
		e.stats.Stubs["noop:"+fn.Pkg.Pkg.Path()]++
		return e.zeroResults(st, fn)
	}
	if fn.Pkg != nil && fn.Pkg.Pkg.Path() == "math" {
		// floating point is not modelled: every result of package math is an opaque value of its type
		e.stats.Stubs["opaque:math."+fn.Name()]++
		sig := fn.Signature.Results()
		rets := make([]Value, sig.Len())
		for i := range rets {
			if b, ok := sig.At(i).Type().Underlying().(*types.Basic); ok && b.Info()&types.IsFloat != 0 {
				rets[i] = OpaqueV{"float"}
			} else {
				panic(unsupported("package math function with a non-float result: %s", fn.Name()))
			}
		}
		return []Outcome{{st: st, rets: rets}}
	}
	if len(fn.Blocks) == 0 {
		if in, ok := e.harnessAPI[fn.Name()]; ok && fn.Pkg != nil && strings.HasPrefix(fn.Name(), "v") {
			switch fn.Name() {
			case "vRunSpawned", "vSpawnCount", "vSendCount", "vLocksHeldNow", "vDistinctRandom", "vSharedMapRaces":
				if e.h != nil {
					e.h.EngineOnlyAPI = true
				}
			}
			e.curDepth = depth
			return in(e, st, fn, args)
		}
		panic(unsupported("external function %s", key))
	}
	e.stats.Funcs[key]++
	e.stack = append(e.stack, key)
	if debugTrace {
		fmt.Fprintf(os.Stderr, "%*scall %s (instrs=%d)\n", len(e.stack), "", key, e.stats.Instrs)
	}
	fr := &Frame{fn: fn, locals: make(map[ssa.Value]Value, 32), visits: map[int]int{}, depth: depth}
	for i, p := range fn.Params {
		if i >= len(args) {
			panic(unsupported("arity mismatch calling %s", fn))
		}
		fr.locals[p] = args[i]
	}
	for i, fv := range fn.FreeVars {
		fr.locals[fv] = bind[i]
	}
	res := e.runFrameWithDefers(st, fr)
	e.stack = e.stack[:len(e.stack)-1]
	return e.mergeOutcomes(res)
}

// runFrameWithDefers runs the body; for panicking paths runs pending defers and handles recover.
func (e *Exec) runFrameWithDefers(st *State, fr *Frame) []Outcome {
	res := e.runFrame(st, fr)
	var out []Outcome
	for _, r := range res {
		if !r.panicked {
			out = append(out, r)
			continue
		}
		f := r.fr
		if f == nil || len(f.defers) == 0 || r.st.parked {
			out = append(out, Outcome{st: r.st, panicked: true})
			continue
		}
		for _, s2 := range e.runDefers(r.st, f) {
			if s2.panicVal != nil {
				out = append(out, Outcome{st: s2, panicked: true})
				continue
			}
			// recovered: return via Recover block or zero results
			if fr.fn.Recover != nil {
				f2 := f.fork()
				f2.defers = nil
				sub := e.runFrom(s2, f2, fr.fn.Recover)
				out = append(out, sub...)
			} else {
				sig := fr.fn.Signature.Results()
				rets := make([]Value, sig.Len())
				for i := range rets {
					rets[i] = e.zero(sig.At(i).Type())
				}
				out = append(out, Outcome{st: s2, rets: rets})
			}
		}
	}
	return out
}

func (e *Exec) runFrom(st *State, fr *Frame, blk *ssa.BasicBlock) []PathRes {
	// run a frame starting at an arbitrary block (used for recover blocks)
	fi := e.info(fr.fn)
	_ = fi
	work := []*item{{st: st, fr: fr, blk: blk}}
	var done []PathRes
	for len(work) > 0 {
		it := work[0]
		work = work[1:]
		items, res := e.execBlock(it)
		work = append(work, items...)
		done = append(done, res...)
	}
	return done
}

// runDefers runs all pending deferred calls of fr (LIFO). Returns resulting states. While a panic is propagating
// (st.panicVal set) each deferred call runs with the panic parked in st.pending, where recover() can take it; code
// called by the deferred function therefore executes normally.
func (e *Exec) runDefers(st *State, fr *Frame) []*State {
	if len(fr.defers) == 0 {
		return []*State{st}
	}
	d := fr.defers[len(fr.defers)-1]
	fr.defers = fr.defers[:len(fr.defers)-1]
	panicking := st.panicVal != nil
	msg := st.panicMsg
	if panicking {
		st.pending = st.panicVal
		st.panicVal = nil
	}
	var out []*State
	for _, o := range e.callValue(st, d.fn, d.args, fr.depth+1) {
		s2 := o.st
		if o.panicked {
			// a panic inside the deferred call replaces the one being handled
			s2.pending = nil
		} else if panicking {
			if s2.pending != nil { // not recovered: keep propagating
				s2.panicVal = s2.pending
				s2.panicMsg = msg
				s2.pending = nil
			}
		}
		out = append(out, e.runDefers(s2, fr.fork())...)
	}
	return out
}

func (e *Exec) mergeOutcomes(res []Outcome) []Outcome {
	if len(res) <= 1 || e.opts.NoMerge {
		return res
	}
	var out []Outcome
	for _, r := range res {
		merged := false
		if !r.panicked {
			for i, o := range out {
				if o.panicked || len(o.rets) != len(r.rets) {
					continue
				}
				ms, c, ok := e.tryMergeStates(o.st, r.st)
				if !ok {
					continue
				}
				rets, ok := e.tryMergeVals(c, o.rets, r.rets)
				if !ok {
					continue
				}
				out[i] = Outcome{st: ms, rets: rets}
				merged = true
				break
			}
		}
		if !merged {
			out = append(out, r)
		}
	}
	return out
}

func (e *Exec) tryMergeVals(c *Term, a, b []Value) (r []Value, ok bool) {
	defer func() {
		if x := recover(); x != nil {
			if _, isMF := x.(mergeFail); isMF {
				r, ok = nil, false
				return
			}
			panic(x)
		}
	}()
	r = make([]Value, len(a))
	for i := range a {
		if sameValue(a[i], b[i]) {
			r[i] = a[i]
		} else {
			r[i] = e.mergeValue(c, a[i], b[i])
		}
	}
	return r, true
}

// methodFor finds the concrete method for dynamic type t.
func (e *Exec) methodFor(t types.Type, m *types.Func) *ssa.Function {
	ms := e.prog.MethodSets.MethodSet(t)
	sel := ms.Lookup(m.Pkg(), m.Name())
	if sel == nil {
		panic(unsupported("type %s has no method %s", t, m.Name()))
	}
	fn := e.prog.MethodValue(sel)
	if fn == nil {
		panic(unsupported("no ssa function for %s.%s", t, m.Name()))
	}
	return fn
}

var debugTrace = os.Getenv("VERIF_TRACE") != ""

// atomicOp models sync/atomic primitives as sequentially consistent loads/stores.
func (e *Exec) atomicOp(st *State, fn *ssa.Function, args []Value) []Outcome {
	name := fn.Name()
	p, ok := args[0].(Ptr)
	if !ok || p.IsNil() {
		st.panicVal = e.panicString("nil pointer in atomic op")
		return []Outcome{{st: st, panicked: true}}
	}
	switch {
	case strings.HasPrefix(name, "Add"):
		old := e.load(st, p).(BV)
		nv := BV{e.tc.Add(old.T, args[1].(BV).T)}
		e.store(st, p, nv)
		return ret(st, nv)
	case strings.HasPrefix(name, "Load"):
		return ret(st, e.load(st, p))
	case strings.HasPrefix(name, "Store"):
		e.store(st, p, args[1])
		return ret(st)
	case strings.HasPrefix(name, "Swap"):
		old := e.load(st, p)
		e.store(st, p, args[1])
		return ret(st, old)
	case strings.HasPrefix(name, "CompareAndSwap"):
		old := e.load(st, p)
		eq := e.valueEq(st, old, args[1])
		if eq.IsTrue() {
			e.store(st, p, args[2])
			return ret(st, BoolV{eq})
		}
		if eq.IsFalse() {
			return ret(st, BoolV{eq})
		}
		e.store(st, p, e.mergeValueOrFail(eq, args[2], old, "atomic CAS"))
		return ret(st, BoolV{eq})
	case strings.HasPrefix(name, "And") || strings.HasPrefix(name, "Or"):
		old := e.load(st, p).(BV)
		op := "bvand"
		if strings.HasPrefix(name, "Or") {
			op = "bvor"
		}
		e.store(st, p, BV{e.tc.Bin(op, old.T, args[1].(BV).T)})
		return ret(st, old)
	}
	panic(unsupported("atomic op %s", name))
}
