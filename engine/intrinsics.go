package main

// Environment stubs: standard-library functions that are replaced by contracts.

import (
	"fmt"
	"go/types"
	"strings"

	"golang.org/x/tools/go/ssa"
)

// noopPkgs: every function of these packages is a no-op returning zero values (logging, debugging).
var noopPkgs = map[string]bool{
	"log/slog":      true,
	"log":           true,
	"runtime/debug": true,
	"runtime":       true,
}

func (e *Exec) zeroResults(st *State, fn *ssa.Function) []Outcome {
	sig := fn.Signature.Results()
	rets := make([]Value, sig.Len())
	for i := range rets {
		rets[i] = e.zero(sig.At(i).Type())
	}
	return []Outcome{{st: st, rets: rets}}
}

func registerIntrinsics(e *Exec) {
	in := e.intrinsics
	noop := func(e *Exec, st *State, fn *ssa.Function, args []Value) []Outcome { return e.zeroResults(st, fn) }

	for _, n := range []string{
		"(*sync.WaitGroup).Add", "(*sync.WaitGroup).Done",
		"(*sync.WaitGroup).Wait", "time.Sleep", "fmt.Println", "fmt.Printf", "fmt.Print", "os.Exit",
		"(*sync.Mutex).TryLock",
	} {
		in[n] = noop
	}
	// mutexes: one flow of control at a time, so Lock never blocks; the number held is kept for vLocksHeld
	for _, n := range []string{"(*sync.Mutex).Lock", "(*sync.RWMutex).Lock", "(*sync.RWMutex).RLock"} {
		in[n] = func(e *Exec, st *State, fn *ssa.Function, args []Value) []Outcome { st.locks++; return ret(st) }
	}
	for _, n := range []string{"(*sync.Mutex).Unlock", "(*sync.RWMutex).Unlock", "(*sync.RWMutex).RUnlock"} {
		in[n] = func(e *Exec, st *State, fn *ssa.Function, args []Value) []Outcome { st.locks--; return ret(st) }
	}
	in["(*sync.Once).Do"] = func(e *Exec, st *State, fn *ssa.Function, args []Value) []Outcome {
		p := args[0].(Ptr)
		o := e.load(st, p).(StructV)
		// field 0 is done (atomic.Uint32 or uint32 depending on version); use a side flag in the heap value
		_ = o
		key := fmt.Sprintf("once:%d", p.Obj)
		if st.counts[key] > 0 {
			return ret(st)
		}
		st.counts[key] = 1
		return e.callValue(st, args[1], nil, e.curDepth+1)
	}
	// sync.Pool: a LIFO of the values put back (Get calls New when it is empty)
	in["(*sync.Pool).Put"] = func(e *Exec, st *State, fn *ssa.Function, args []Value) []Outcome {
		id := e.poolStore(args[0].(Ptr))
		q, _ := st.heap[id].(ArrayV)
		st.heap[id] = ArrayV{append(append([]Value(nil), q.E...), args[1])}
		return ret(st)
	}
	in["(*sync.Pool).Get"] = func(e *Exec, st *State, fn *ssa.Function, args []Value) []Outcome {
		p := args[0].(Ptr)
		id := e.poolStore(p)
		q, _ := st.heap[id].(ArrayV)
		if n := len(q.E); n > 0 {
			st.heap[id] = ArrayV{append([]Value(nil), q.E[:n-1]...)}
			return ret(st, q.E[n-1])
		}
		pool := e.load(st, p).(StructV)
		for _, f := range pool.F {
			if fv, ok := f.(FuncV); ok && !fv.Nil && fv.Fn != nil {
				return e.callValue(st, fv, nil, e.curDepth+1)
			}
		}
		return ret(st, IfaceV{})
	}
	in["internal/abi.NoEscape"] = func(e *Exec, st *State, fn *ssa.Function, args []Value) []Outcome {
		return ret(st, args[0])
	}
	in["internal/abi.Escape"] = func(e *Exec, st *State, fn *ssa.Function, args []Value) []Outcome {
		return ret(st, args[0])
	}

	// --- fmt -----------------------------------------------------------------
	in["fmt.Sprintf"] = func(e *Exec, st *State, fn *ssa.Function, args []Value) []Outcome {
		s, _ := e.sprintf(st, args[0].(StringV), e.variadic(st, args[1]))
		return ret(st, s)
	}
	in["fmt.Sprint"] = func(e *Exec, st *State, fn *ssa.Function, args []Value) []Outcome {
		vs := e.variadic(st, args[0])
		f := strings.Repeat("%v", len(vs))
		s, _ := e.sprintf(st, e.constString(f), vs)
		return ret(st, s)
	}
	in["fmt.Errorf"] = func(e *Exec, st *State, fn *ssa.Function, args []Value) []Outcome {
		vs := e.variadic(st, args[1])
		s, wrapped := e.sprintf(st, args[0].(StringV), vs)
		if wrapped != nil {
			fmtPkg := e.prog.ImportedPackage("fmt")
			wt := fmtPkg.Type("wrapError").Type()
			id := e.alloc(st, StructV{[]Value{s, wrapped}})
			return ret(st, IfaceV{T: types.NewPointer(wt), V: Ptr{Obj: id}})
		}
		return ret(st, e.makeErrorStr(st, s))
	}
	in["fmt.Fprintf"] = func(e *Exec, st *State, fn *ssa.Function, args []Value) []Outcome {
		s, _ := e.sprintf(st, args[1].(StringV), e.variadic(st, args[2]))
		w := args[0].(IfaceV)
		if w.T == nil {
			return []Outcome{{st: st, panicked: true}}
		}
		wm := e.lookupMethod(w.T, "Write")
		b := e.stringToSlice(st, s)
		return e.callFunction(st, wm, []Value{w.V, b}, nil, e.curDepth+1)
	}

	// --- errors ----------------------------------------------------------------
	in["errors.Is"] = func(e *Exec, st *State, fn *ssa.Function, args []Value) []Outcome {
		return e.errorsIs(st, args[0].(IfaceV), args[1].(IfaceV), 0)
	}

	// --- rand / time -------------------------------------------------------------
	fresh := func(name string, w int) Intrinsic {
		return func(e *Exec, st *State, fn *ssa.Function, args []Value) []Outcome {
			return ret(st, BV{e.tc.FreshVar(name, w)})
		}
	}
	in["math/rand.Uint32"] = fresh("rand.Uint32", 32)
	in["math/rand.Int"] = func(e *Exec, st *State, fn *ssa.Function, args []Value) []Outcome {
		t := e.tc.FreshVar("rand.Int", 64)
		st.assume(e.tc.Sle(e.tc.Int(0), t))
		return ret(st, BV{t})
	}
	in["math/rand.Intn"] = func(e *Exec, st *State, fn *ssa.Function, args []Value) []Outcome {
		t := e.tc.FreshVar("rand.Intn", 64)
		st.assume(e.tc.And(e.tc.Sle(e.tc.Int(0), t), e.tc.Slt(t, args[0].(BV).T)))
		return ret(st, BV{t})
	}
	in["crypto/rand.Read"] = func(e *Exec, st *State, fn *ssa.Function, args []Value) []Outcome {
		s := args[0].(SliceV)
		if !s.Base.IsNil() {
			arr := e.tc.ArrayVar(fmt.Sprintf("crand!%d", e.tc.nvars))
			e.tc.nvars++
			src := SliceV{Base: Ptr{Obj: e.alloc(st, ByteBuf{C: &CBase{arr}, Len: s.Len})}, Off: e.tc.Int(0), Len: s.Len, Cap: s.Len}
			e.copyInto(st, s, src)
			if st.distinctRand && s.Len.konst && s.Len.cv == 4 {
				// opt-in environment assumption (vDistinctRandom): a fresh 4-byte random value differs from the earlier ones
				var v *Term
				for i := 0; i < 4; i++ {
					b := e.tc.Select(arr, e.tc.Int(int64(i)))
					if v == nil {
						v = b
					} else {
						v = e.tc.Concat(v, b)
					}
				}
				for _, old := range st.randVals {
					st.assume(e.tc.Not(e.tc.Eq(v, old)))
				}
				st.randVals = append(st.randVals, v)
			}
		}
		return ret(st, BV{s.Len}, IfaceV{})
	}
	in["time.Now"] = func(e *Exec, st *State, fn *ssa.Function, args []Value) []Outcome {
		// abstract instant: wall without monotonic bit, ext = seconds since year 1 (non-negative, bounded), loc nil (UTC)
		ext := e.tc.FreshVar("time.Now.sec", 64)
		lo := e.tc.Int(62135596800)         // 1970
		hi := e.tc.Int(62135596800 + 1<<33) // ~2242
		st.assume(e.tc.And(e.tc.Sle(lo, ext), e.tc.Sle(ext, hi)))
		nsec := e.tc.FreshVar("time.Now.nsec", 64)
		st.assume(e.tc.Ult(nsec, e.tc.Int(1000000000)))
		if st.lastNowSec != nil { // the clock never runs backwards along one path
			st.assume(e.tc.Or(e.tc.Slt(st.lastNowSec, ext), e.tc.And(e.tc.Eq(st.lastNowSec, ext), e.tc.Ule(st.lastNowNsec, nsec))))
		}
		st.lastNowSec, st.lastNowNsec = ext, nsec
		return ret(st, StructV{[]Value{BV{nsec}, BV{ext}, nilPtr}})
	}

	in["strings.ReplaceAll"] = func(e *Exec, st *State, fn *ssa.Function, args []Value) []Outcome {
		str, old, nw := args[0].(StringV), args[1].(StringV), args[2].(StringV)
		so, ok1 := e.concreteString(old)
		sn, ok2 := e.concreteString(nw)
		if !ok1 || !ok2 {
			panic(unsupported("strings.ReplaceAll with symbolic pattern"))
		}
		if ss, ok := e.concreteString(str); ok {
			return ret(st, e.constString(strings.ReplaceAll(ss, so, sn)))
		}
		if len(so) == 1 && len(sn) == 1 {
			return ret(st, StringV{C: &CMapByte{Src: str.C, Old: e.tc.BVConst(uint64(so[0]), 8), New: e.tc.BVConst(uint64(sn[0]), 8)}, Off: str.Off, Len: str.Len})
		}
		if len(so) >= 2 {
			// a multi-byte pattern that provably occurs nowhere in the string leaves it unchanged (decided by the solver
			// with a fresh index; e.g. "\r\n" after every "\n" has been replaced)
			k := e.tc.FreshVar("ra.idx", 64)
			c := e.tc.And(e.tc.Sle(e.tc.Int(0), k), e.tc.Sle(e.tc.Add(k, e.tc.Int(int64(len(so)))), str.Len))
			for j := 0; j < len(so); j++ {
				b := e.sel(str.C, e.tc.Add(e.tc.Add(str.Off, k), e.tc.Int(int64(j))))
				c = e.tc.And(c, e.tc.Eq(b, e.tc.BVConst(uint64(so[j]), 8)))
			}
			if !e.feasible(st, c) {
				return ret(st, str)
			}
		}
		panic(unsupported("strings.ReplaceAll of a symbolic string with multi-byte patterns"))
	}
	in["(time.Time).Format"] = func(e *Exec, st *State, fn *ssa.Function, args []Value) []Outcome {
		return ret(st, e.opaqueString(st, "time.Format"))
	}
	in["(time.Time).String"] = in["(time.Time).Format"]

	// --- bytealg ---------------------------------------------------------------
	in["internal/bytealg.IndexByteString"] = func(e *Exec, st *State, fn *ssa.Function, args []Value) []Outcome {
		s := args[0].(StringV)
		return ret(st, BV{e.indexByte(st, s.C, s.Off, s.Len, args[1].(BV).T)})
	}
	in["internal/bytealg.IndexByte"] = func(e *Exec, st *State, fn *ssa.Function, args []Value) []Outcome {
		s := args[0].(SliceV)
		if s.Base.IsNil() {
			return ret(st, BV{e.tc.Int(-1)})
		}
		return ret(st, BV{e.indexByte(st, e.containerContent(st, s.Base), s.Off, s.Len, args[1].(BV).T)})
	}
	in["internal/bytealg.CountString"] = func(e *Exec, st *State, fn *ssa.Function, args []Value) []Outcome {
		s := args[0].(StringV)
		return ret(st, BV{e.countByte(st, s.C, s.Off, s.Len, args[1].(BV).T)})
	}
	in["internal/bytealg.Count"] = func(e *Exec, st *State, fn *ssa.Function, args []Value) []Outcome {
		s := args[0].(SliceV)
		if s.Base.IsNil() {
			return ret(st, BV{e.tc.Int(0)})
		}
		return ret(st, BV{e.countByte(st, e.containerContent(st, s.Base), s.Off, s.Len, args[1].(BV).T)})
	}
	in["internal/bytealg.Equal"] = func(e *Exec, st *State, fn *ssa.Function, args []Value) []Outcome {
		a := e.sliceToString(st, args[0].(SliceV))
		b := e.sliceToString(st, args[1].(SliceV))
		return ret(st, BoolV{e.stringEq(st, a, b)})
	}
	in["internal/bytealg.MakeNoZero"] = func(e *Exec, st *State, fn *ssa.Function, args []Value) []Outcome {
		n := args[0].(BV).T
		id := e.alloc(st, ByteBuf{C: czero, Len: n})
		return ret(st, SliceV{Base: Ptr{Obj: id}, Off: e.tc.Int(0), Len: n, Cap: n})
	}
	in["internal/stringslite.Index"] = nil
	delete(in, "internal/stringslite.Index")

	// --- encoding/binary ---------------------------------------------------------
	in["encoding/binary.Read"] = binaryRead
	in["encoding/binary.Write"] = binaryWrite
	in["encoding/binary.Size"] = func(e *Exec, st *State, fn *ssa.Function, args []Value) []Outcome {
		v := args[0].(IfaceV)
		t := v.T
		if p, ok := t.Underlying().(*types.Pointer); ok {
			t = p.Elem()
		}
		return ret(st, BV{e.tc.Int(int64(binSize(t)))})
	}

	// --- draining readers: contract = repeated Read into a large buffer until io.EOF ---------------
	// (the sequence of buffer sizes the real implementations use is covered by the per-encoder drain lemma)
	in["(*bytes.Buffer).ReadFrom"] = func(e *Exec, st *State, fn *ssa.Function, args []Value) []Outcome {
		bp := args[0].(Ptr)
		wm := e.lookupMethod(types.NewPointer(fn.Signature.Recv().Type().(*types.Pointer).Elem()), "Write")
		return e.drainReader(st, args[1].(IfaceV), 0, e.tc.Int(0), func(s2 *State, chunk SliceV) []Outcome {
			return e.callFunction(s2, wm, []Value{bp, chunk}, nil, e.curDepth+1)
		}, func(s2 *State, total *Term, err Value) []Outcome {
			return ret(s2, BV{total}, err)
		})
	}
	in["(io.discard).ReadFrom"] = func(e *Exec, st *State, fn *ssa.Function, args []Value) []Outcome {
		return e.drainReader(st, args[1].(IfaceV), 0, e.tc.Int(0), func(s2 *State, chunk SliceV) []Outcome {
			return ret(s2, BV{chunk.Len}, IfaceV{})
		}, func(s2 *State, total *Term, err Value) []Outcome {
			return ret(s2, BV{total}, err)
		})
	}
	in["io.ReadAll"] = func(e *Exec, st *State, fn *ssa.Function, args []Value) []Outcome {
		acc := e.alloc(st, ByteBuf{C: czero, Len: e.tc.Int(0)})
		return e.drainReader(st, args[0].(IfaceV), 0, e.tc.Int(0), func(s2 *State, chunk SliceV) []Outcome {
			cur := s2.heap[acc].(ByteBuf)
			nl := e.tc.Add(cur.Len, chunk.Len)
			s2.heap[acc] = ByteBuf{C: e.copyContent(cur.C, cur.Len, chunk.Len, e.containerContent(s2, chunk.Base), chunk.Off), Len: nl}
			return ret(s2, BV{chunk.Len}, IfaceV{})
		}, func(s2 *State, total *Term, err Value) []Outcome {
			cur := s2.heap[acc].(ByteBuf)
			// result slice owns a fresh object so later appends do not alias the accumulator
			id := e.alloc(s2, ByteBuf{C: cur.C, Len: cur.Len})
			return ret(s2, SliceV{Base: Ptr{Obj: id}, Off: e.tc.Int(0), Len: cur.Len, Cap: cur.Len}, err)
		})
	}

	// --- sort --------------------------------------------------------------------
	in["sort.Slice"] = sortSlice
	in["sort.SliceStable"] = sortSlice

	registerOSIntrinsics(e)
}

func (e *Exec) lookupMethod(t types.Type, name string) *ssa.Function {
	ms := e.prog.MethodSets.MethodSet(t)
	for i := 0; i < ms.Len(); i++ {
		if ms.At(i).Obj().Name() == name {
			fn := e.prog.MethodValue(ms.At(i))
			if fn != nil {
				return fn
			}
		}
	}
	panic(unsupported("type %s has no method %s", t, name))
}

func (e *Exec) hasMethod(t types.Type, name string) bool {
	ms := e.prog.MethodSets.MethodSet(t)
	for i := 0; i < ms.Len(); i++ {
		if ms.At(i).Obj().Name() == name {
			return true
		}
	}
	return false
}

// variadic turns a []interface{} slice value into its elements.
func (e *Exec) variadic(st *State, v Value) []Value {
	s := v.(SliceV)
	if s.Base.IsNil() {
		return nil
	}
	if !s.Len.konst || !s.Off.konst {
		panic(unsupported("variadic slice with symbolic length"))
	}
	c := e.load(st, s.Base).(ArrayV)
	return c.E[s.Off.cv : s.Off.cv+s.Len.cv]
}

// sprintf models fmt.Sprintf: exact for concrete arguments, concatenation for %s/%v of strings and byte
// slices, opaque text for symbolic numbers. Returns the wrapped error for %w.
func (e *Exec) sprintf(st *State, format StringV, args []Value) (StringV, Value) {
	f, ok := e.concreteString(format)
	if !ok {
		panic(unsupported("Sprintf with symbolic format"))
	}
	var wrapped Value
	out := e.constString("")
	ai := 0
	i := 0
	lit := func(s string) { out = e.concatStr(out, e.constString(s)) }
	for i < len(f) {
		j := strings.IndexByte(f[i:], '%')
		if j < 0 {
			lit(f[i:])
			break
		}
		lit(f[i : i+j])
		i += j
		// parse verb
		k := i + 1
		for k < len(f) && strings.ContainsRune("+-# 0123456789.", rune(f[k])) {
			k++
		}
		if k >= len(f) {
			lit(f[i:])
			break
		}
		verb := f[k]
		spec := f[i : k+1]
		i = k + 1
		if verb == '%' {
			lit("%")
			continue
		}
		if ai >= len(args) {
			lit("%!" + string(verb) + "(MISSING)")
			continue
		}
		a := args[ai]
		ai++
		if verb == 'w' {
			wrapped = a
			spec = spec[:len(spec)-1] + "v"
			verb = 'v'
		}
		out = e.concatStr(out, e.formatArg(st, spec, verb, a))
	}
	return out, wrapped
}

func (e *Exec) formatArg(st *State, spec string, verb byte, a Value) StringV {
	iv, isIface := a.(IfaceV)
	var v Value = a
	var t types.Type
	if isIface {
		if iv.T == nil {
			return e.constString("<nil>")
		}
		v, t = iv.V, iv.T
	}
	plain := spec == "%s" || spec == "%v" || spec == "%q" || spec == "%+v"
	// error / Stringer
	if t != nil && (verb == 's' || verb == 'v' || verb == 'q') {
		for _, m := range []string{"Error", "String"} {
			if e.hasMethod(t, m) {
				fn := e.lookupMethod(t, m)
				if fn.Signature.Params().Len() == 0 && fn.Signature.Results().Len() == 1 {
					outs := e.callFunction(st, fn, []Value{v}, nil, e.curDepth+1)
					if len(outs) == 1 && !outs[0].panicked {
						if s, ok := outs[0].rets[0].(StringV); ok {
							*st = *outs[0].st
							return s
						}
					}
					return e.opaqueString(st, "fmt.method")
				}
			}
		}
	}
	switch x := v.(type) {
	case StringV:
		if plain && verb != 'q' {
			return x
		}
		if s, ok := e.concreteString(x); ok {
			return e.constString(fmt.Sprintf(spec, s))
		}
		return e.opaqueString(st, "fmt.str")
	case SliceV:
		if verb == 's' && plain {
			return e.sliceToString(st, x)
		}
		if verb == 's' || verb == 'q' || verb == 'x' {
			if str, ok := e.concreteString(e.sliceToString(st, x)); ok {
				return e.constString(fmt.Sprintf(spec, []byte(str)))
			}
		}
		return e.opaqueString(st, "fmt.slice")
	case BV:
		if x.T.konst {
			_, signed, _ := intWidth(t)
			if t == nil {
				signed = true
			}
			if signed {
				return e.constString(fmt.Sprintf(spec, x.T.SVal()))
			}
			return e.constString(fmt.Sprintf(spec, x.T.cv))
		}
		return e.opaqueString(st, "fmt.int")
	case BoolV:
		if x.T.konst {
			return e.constString(fmt.Sprintf(spec, x.T.cv == 1))
		}
		return e.opaqueString(st, "fmt.bool")
	}
	return e.opaqueString(st, "fmt.other")
}

// opaqueString returns a fresh string of unknown content and bounded length (<= 64).
func (e *Exec) opaqueString(st *State, tag string) StringV {
	ln := e.tc.FreshVar(tag+".len", 64)
	arr := e.tc.ArrayVar(fmt.Sprintf("%s.arr!%d", tag, e.tc.nvars))
	st.assume(e.tc.Ule(ln, e.tc.Int(64)))
	e.bounds[ln.id] = 64
	return StringV{C: &CBase{arr}, Off: e.tc.Int(0), Len: ln}
}

func (e *Exec) errorsIs(st *State, err, target IfaceV, depth int) []Outcome {
	tc := e.tc
	if err.T == nil || target.T == nil {
		return ret(st, BoolV{tc.BoolConst(err.T == nil && target.T == nil)})
	}
	if depth > 8 {
		return ret(st, BoolV{tc.False()})
	}
	eq := tc.False()
	if types.Identical(err.T, target.T) && types.Comparable(err.T) {
		eq = e.valueEq(st, err.V, target.V)
	}
	if eq.IsTrue() {
		return ret(st, BoolV{eq})
	}
	if e.hasMethod(err.T, "Unwrap") {
		fn := e.lookupMethod(err.T, "Unwrap")
		if fn.Signature.Results().Len() == 1 {
			if _, isSlice := fn.Signature.Results().At(0).Type().Underlying().(*types.Slice); !isSlice {
				var outs []Outcome
				for _, o := range e.callFunction(st, fn, []Value{err.V}, nil, e.curDepth+1) {
					if o.panicked {
						outs = append(outs, o)
						continue
					}
					for _, o2 := range e.errorsIs(o.st, o.rets[0].(IfaceV), target, depth+1) {
						if !o2.panicked {
							o2.rets[0] = BoolV{tc.Or(eq, o2.rets[0].(BoolV).T)}
						}
						outs = append(outs, o2)
					}
				}
				return outs
			}
		}
	}
	return ret(st, BoolV{eq})
}

// indexByte: first index i < len with c[off+i]==b, else -1. Needs a bounded length.
func (e *Exec) indexByte(st *State, c Content, off, ln, b *Term) *Term {
	tc := e.tc
	ub := e.lenBound(ln)
	if ub < 0 || ub > 1<<14 {
		panic(unsupported("IndexByte over unbounded symbolic length"))
	}
	r := tc.Int(-1)
	for i := ub - 1; i >= 0; i-- {
		it := tc.Int(int64(i))
		hit := tc.And(tc.Ult(it, ln), tc.Eq(e.sel(c, tc.Add(off, it)), b))
		r = tc.Ite(hit, it, r)
	}
	return r
}

func (e *Exec) countByte(st *State, c Content, off, ln, b *Term) *Term {
	tc := e.tc
	ub := e.lenBound(ln)
	if ub < 0 || ub > 1<<14 {
		panic(unsupported("Count over unbounded symbolic length"))
	}
	r := tc.Int(0)
	for i := 0; i < ub; i++ {
		it := tc.Int(int64(i))
		hit := tc.And(tc.Ult(it, ln), tc.Eq(e.sel(c, tc.Add(off, it)), b))
		r = tc.Add(r, tc.Ite(hit, tc.Int(1), tc.Int(0)))
	}
	return r
}

// --- encoding/binary on fixed-size values -----------------------------------------

func binSize(t types.Type) int {
	switch u := t.Underlying().(type) {
	case *types.Basic:
		if w, _, ok := intWidth(t); ok {
			return w / 8
		}
		if u.Kind() == types.Bool {
			return 1
		}
	case *types.Array:
		return int(u.Len()) * binSize(u.Elem())
	case *types.Struct:
		n := 0
		for i := 0; i < u.NumFields(); i++ {
			n += binSize(u.Field(i).Type())
		}
		return n
	}
	panic(unsupported("binary.Size of %s", t))
}

func isBigEndian(order Value) bool {
	iv, ok := order.(IfaceV)
	if !ok || iv.T == nil {
		panic(unsupported("binary byte order is nil"))
	}
	return strings.Contains(iv.T.String(), "bigEndian")
}

// decodeBin builds a value of type t from bytes at content c starting at off.
func (e *Exec) decodeBin(t types.Type, c Content, off *int, big bool) Value {
	tc := e.tc
	switch u := t.Underlying().(type) {
	case *types.Basic:
		if w, _, ok := intWidth(t); ok {
			n := w / 8
			var r *Term
			for i := 0; i < n; i++ {
				b := e.sel(c, tc.Int(int64(*off+i)))
				if r == nil {
					r = b
				} else if big {
					r = tc.Concat(r, b)
				} else {
					r = tc.Concat(b, r)
				}
			}
			*off += n
			return BV{r}
		}
		if u.Kind() == types.Bool {
			b := e.sel(c, tc.Int(int64(*off)))
			*off++
			return BoolV{tc.Ne(b, tc.BVConst(0, 8))}
		}
	case *types.Array:
		n := int(u.Len())
		if isByteType(u.Elem()) {
			if n > bigArr {
				v := ByteBuf{C: &CCopy{Prev: czero, DstOff: tc.Int(0), N: tc.Int(int64(n)), Src: c, SrcOff: tc.Int(int64(*off))}, Len: tc.Int(int64(n))}
				*off += n
				return v
			}
			el := make([]*Term, n)
			for i := range el {
				el[i] = e.sel(c, tc.Int(int64(*off+i)))
			}
			*off += n
			return ByteArr{el}
		}
		el := make([]Value, n)
		for i := range el {
			el[i] = e.decodeBin(u.Elem(), c, off, big)
		}
		return ArrayV{el}
	case *types.Struct:
		f := make([]Value, u.NumFields())
		for i := range f {
			f[i] = e.decodeBin(u.Field(i).Type(), c, off, big)
		}
		return StructV{f}
	}
	panic(unsupported("binary decode of %s", t))
}

func (e *Exec) encodeBin(v Value, big bool, out *[]*Term) {
	tc := e.tc
	switch x := v.(type) {
	case BV:
		n := x.T.w / 8
		for i := 0; i < n; i++ {
			k := i
			if big {
				k = n - 1 - i
			}
			*out = append(*out, tc.Extract(k*8+7, k*8, x.T))
		}
	case BoolV:
		*out = append(*out, tc.Ite(x.T, tc.BVConst(1, 8), tc.BVConst(0, 8)))
	case ByteArr:
		*out = append(*out, x.E...)
	case ByteBuf:
		if !x.Len.konst || x.Len.cv > 4096 {
			panic(unsupported("binary encode of large byte array"))
		}
		for i := 0; i < int(x.Len.cv); i++ {
			*out = append(*out, e.sel(x.C, tc.Int(int64(i))))
		}
	case ArrayV:
		for _, el := range x.E {
			e.encodeBin(el, big, out)
		}
	case StructV:
		for _, f := range x.F {
			e.encodeBin(f, big, out)
		}
	default:
		panic(unsupported("binary encode of %T", v))
	}
}

// binaryRead(r io.Reader, order, data any) error  == io.ReadFull(r, buf[:size]) then decode.
func binaryRead(e *Exec, st *State, fn *ssa.Function, args []Value) []Outcome {
	tc := e.tc
	big := isBigEndian(args[1])
	data := args[2].(IfaceV)
	pt, ok := data.T.Underlying().(*types.Pointer)
	if !ok {
		if _, isSlice := data.T.Underlying().(*types.Slice); isSlice {
			// []byte target: plain ReadFull
			s := data.V.(SliceV)
			return e.ioReadFull(st, args[0], s, func(st2 *State, n *Term, err Value) []Outcome {
				return ret(st2, err)
			})
		}
		panic(unsupported("binary.Read into %s", data.T))
	}
	size := binSize(pt.Elem())
	buf := SliceV{Base: Ptr{Obj: e.alloc(st, ByteBuf{C: czero, Len: tc.Int(int64(size))})}, Off: tc.Int(0), Len: tc.Int(int64(size)), Cap: tc.Int(int64(size))}
	return e.ioReadFull(st, args[0], buf, func(st2 *State, n *Term, err Value) []Outcome {
		if iv := err.(IfaceV); iv.T != nil {
			return ret(st2, err)
		}
		off := 0
		v := e.decodeBin(pt.Elem(), e.containerContent(st2, buf.Base), &off, big)
		e.store(st2, data.V.(Ptr), v)
		return ret(st2, IfaceV{})
	})
}

// ioReadFull calls the real io.ReadFull on reader r with buf, then continues with k.
func (e *Exec) ioReadFull(st *State, r Value, buf SliceV, k func(st *State, n *Term, err Value) []Outcome) []Outcome {
	ioPkg := e.prog.ImportedPackage("io")
	if ioPkg == nil {
		panic(unsupported("package io not loaded"))
	}
	rf := ioPkg.Func("ReadFull")
	var outs []Outcome
	for _, o := range e.callFunction(st, rf, []Value{r, buf}, nil, e.curDepth+1) {
		if o.panicked {
			outs = append(outs, o)
			continue
		}
		outs = append(outs, k(o.st, o.rets[0].(BV).T, o.rets[1])...)
	}
	return outs
}

func binaryWrite(e *Exec, st *State, fn *ssa.Function, args []Value) []Outcome {
	big := isBigEndian(args[1])
	data := args[2].(IfaceV)
	var v Value = data.V
	if _, ok := data.T.Underlying().(*types.Pointer); ok {
		v = e.load(st, data.V.(Ptr))
	}
	var bs []*Term
	if s, ok := v.(SliceV); ok {
		w := args[0].(IfaceV)
		wm := e.lookupMethod(w.T, "Write")
		var outs []Outcome
		for _, o := range e.callFunction(st, wm, []Value{w.V, s}, nil, e.curDepth+1) {
			if o.panicked {
				outs = append(outs, o)
			} else {
				outs = append(outs, Outcome{st: o.st, rets: []Value{o.rets[1]}})
			}
		}
		return outs
	}
	e.encodeBin(v, big, &bs)
	n := e.tc.Int(int64(len(bs)))
	buf := SliceV{Base: Ptr{Obj: e.alloc(st, ByteBuf{C: &CVec{bs}, Len: n})}, Off: e.tc.Int(0), Len: n, Cap: n}
	w := args[0].(IfaceV)
	if w.T == nil {
		return []Outcome{{st: st, panicked: true}}
	}
	wm := e.lookupMethod(w.T, "Write")
	var outs []Outcome
	for _, o := range e.callFunction(st, wm, []Value{w.V, buf}, nil, e.curDepth+1) {
		if o.panicked {
			outs = append(outs, o)
		} else {
			outs = append(outs, Outcome{st: o.st, rets: []Value{o.rets[1]}})
		}
	}
	return outs
}

// sortSlice implements sort.Slice by insertion sort over concrete-length slices, calling less.
func sortSlice(e *Exec, st *State, fn *ssa.Function, args []Value) []Outcome {
	iv := args[0].(IfaceV)
	s, ok := iv.V.(SliceV)
	if !ok {
		panic(unsupported("sort.Slice of %T", iv.V))
	}
	if s.Base.IsNil() || (s.Len.konst && s.Len.cv <= 1) {
		return ret(st)
	}
	if !s.Len.konst || !s.Off.konst {
		panic(unsupported("sort.Slice with symbolic length"))
	}
	n := int(s.Len.cv)
	off := int(s.Off.cv)
	less := args[1]
	// insertion sort; each comparison may fork
	type job struct {
		st   *State
		i, j int
	}
	var done []Outcome
	var rec func(st *State, i, j int)
	swap := func(st *State, a, b int) {
		switch c := e.load(st, s.Base).(type) {
		case ArrayV:
			el := append([]Value(nil), c.E...)
			el[off+a], el[off+b] = el[off+b], el[off+a]
			e.store(st, s.Base, ArrayV{el})
		default:
			panic(unsupported("sort.Slice of byte container"))
		}
	}
	rec = func(st *State, i, j int) {
		for {
			if i >= n {
				done = append(done, Outcome{st: st})
				return
			}
			if j <= 0 {
				i++
				j = i
				continue
			}
			outs := e.callValue(st, less, []Value{BV{e.tc.Int(int64(j))}, BV{e.tc.Int(int64(j - 1))}}, e.curDepth+1)
			if len(outs) != 1 || outs[0].panicked {
				panic(unsupported("sort.Slice: less forked or panicked"))
			}
			st = outs[0].st
			c := outs[0].rets[0].(BoolV).T
			if c.IsTrue() {
				swap(st, j, j-1)
				j--
				continue
			}
			if c.IsFalse() {
				i++
				j = i
				continue
			}
			ft, ff := e.feasible(st, c), e.feasible(st, e.tc.Not(c))
			if ft && ff {
				s2 := st.fork()
				s2.assume(c)
				swap(s2, j, j-1)
				rec(s2, i, j-1)
				st.assume(e.tc.Not(c))
				i++
				j = i
				continue
			}
			if ft {
				swap(st, j, j-1)
				j--
				continue
			}
			i++
			j = i
		}
	}
	rec(st, 1, 1)
	return done
}

const drainBuf = 1 << 24

// drainReader repeatedly calls r.Read with a 16 MiB buffer, hands each chunk to sink, until io.EOF (-> nil error)
// or another error (returned). done receives the total count and the error.
func (e *Exec) drainReader(st *State, r IfaceV, iter int, total *Term, sink func(*State, SliceV) []Outcome, done func(*State, *Term, Value) []Outcome) []Outcome {
	tc := e.tc
	if r.T == nil {
		st.panicVal = e.panicString("nil reader")
		return []Outcome{{st: st, panicked: true}}
	}
	if iter > e.unroll {
		e.h.UnwindHits = append(e.h.UnwindHits, "reader drain loop exceeded the unwinding bound")
		return nil
	}
	rm := e.lookupMethod(r.T, "Read")
	n := tc.Int(drainBuf)
	buf := SliceV{Base: Ptr{Obj: e.alloc(st, ByteBuf{C: czero, Len: n})}, Off: tc.Int(0), Len: n, Cap: n}
	var outs []Outcome
	eof := e.load(st, Ptr{Obj: e.globalObj(st, e.prog.ImportedPackage("io").Var("EOF"))})
	for _, o := range e.callFunction(st, rm, []Value{r.V, buf}, nil, e.curDepth+1) {
		if o.panicked {
			outs = append(outs, o)
			continue
		}
		cnt := o.rets[0].(BV).T
		err := o.rets[1].(IfaceV)
		chunk := SliceV{Base: buf.Base, Off: tc.Int(0), Len: cnt, Cap: n}
		for _, o2 := range sink(o.st, chunk) {
			if o2.panicked {
				outs = append(outs, o2)
				continue
			}
			t2 := tc.Add(total, cnt)
			if err.T == nil {
				outs = append(outs, e.drainReader(o2.st, r, iter+1, t2, sink, done)...)
				continue
			}
			isEOF := e.valueEq(o2.st, err, eof)
			if isEOF.IsTrue() {
				outs = append(outs, done(o2.st, t2, IfaceV{})...)
			} else {
				outs = append(outs, done(o2.st, t2, err)...)
			}
		}
	}
	return outs
}

// poolStore returns the heap slot that holds the contents of the sync.Pool at p.
func (e *Exec) poolStore(p Ptr) int {
	if e.pools == nil {
		e.pools = map[int]int{}
	}
	id, ok := e.pools[p.Obj]
	if !ok {
		e.nextObj++
		id = e.nextObj
		e.pools[p.Obj] = id
	}
	return id
}
