package main

// Filesystem / OS stubs are registered here (filled in per property).

func registerOSIntrinsics(e *Exec) {
}
