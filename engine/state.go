package main

import (
	"fmt"
	"os"

	"golang.org/x/tools/go/ssa"
)

// mapAccess: goroutine g (sequence number of vRunSpawned) touched shared map object obj without holding any lock.
type mapAccess struct {
	g, obj int
	write  bool
	where  string
}

type Spawn struct {
	Fn   Value
	Args []Value
}

type State struct {
	heap                    map[int]Value
	pc                      []*Term
	counts                  map[string]int
	spawned                 []Spawn
	panicVal                Value // non-nil while panicking
	pending                 Value // the panic a deferred call may recover (set while that deferred call runs)
	panicMsg                string
	noMerge                 bool
	log                     []string
	inputs                  []InputDecl
	obs                     []Observation
	obsBad                  bool
	sends                   int         // channel sends performed on this path
	distinctRand            bool        // vDistinctRandom: 4-byte random draws never repeat along this path
	randVals                []*Term     // earlier 4-byte draws (as 32-bit terms)
	unlockedMapAccess       []mapAccess // map reads/writes made by goroutines run by vRunSpawned while holding no lock
	parked                  bool        // this flow blocked forever on an empty channel (only inside vRunSpawned)
	locks                   int         // mutexes currently held (Lock/RLock minus Unlock/RUnlock)
	lastNowSec, lastNowNsec *Term
	tag                     string // deliberate case splits (vChoice, vBytesEach, concretize): states with different tags never merge
}

func newState() *State {
	return &State{heap: map[int]Value{}, counts: map[string]int{}}
}

func (s *State) fork() *State {
	n := &State{heap: make(map[int]Value, len(s.heap)+8), counts: make(map[string]int, len(s.counts)), noMerge: s.noMerge}
	for k, v := range s.heap {
		n.heap[k] = v
	}
	for k, v := range s.counts {
		n.counts[k] = v
	}
	n.pc = append([]*Term(nil), s.pc...)
	n.spawned = append([]Spawn(nil), s.spawned...)
	n.panicVal = s.panicVal
	n.pending = s.pending
	n.panicMsg = s.panicMsg
	n.log = s.log
	n.inputs = append([]InputDecl(nil), s.inputs...)
	n.obs = append([]Observation(nil), s.obs...)
	n.obsBad = s.obsBad
	n.tag = s.tag
	n.sends = s.sends
	n.locks = s.locks
	n.parked = s.parked
	n.unlockedMapAccess = append([]mapAccess(nil), s.unlockedMapAccess...)
	n.distinctRand = s.distinctRand
	n.randVals = append([]*Term(nil), s.randVals...)
	n.lastNowSec, n.lastNowNsec = s.lastNowSec, s.lastNowNsec
	return n
}

func (s *State) assume(t *Term) {
	if t.IsTrue() {
		return
	}
	s.pc = append(s.pc, t)
}

type deferred struct {
	fn   Value
	args []Value
	site ssa.Instruction
}

type Frame struct {
	fn     *ssa.Function
	locals map[ssa.Value]Value
	defers []deferred
	visits map[int]int
	depth  int
}

func (f *Frame) fork() *Frame {
	n := &Frame{fn: f.fn, locals: make(map[ssa.Value]Value, len(f.locals)+8), visits: make(map[int]int, len(f.visits)), depth: f.depth}
	for k, v := range f.locals {
		n.locals[k] = v
	}
	for k, v := range f.visits {
		n.visits[k] = v
	}
	n.defers = append([]deferred(nil), f.defers...)
	return n
}

// --- heap ----------------------------------------------------------------------

func (e *Exec) alloc(st *State, v Value) int {
	e.nextObj++
	st.heap[e.nextObj] = v
	return e.nextObj
}

// getAt navigates into container value v along path.
func (e *Exec) getAt(st *State, v Value, path []PathElem) Value {
	for _, pe := range path {
		switch x := v.(type) {
		case StructV:
			if pe.Idx != nil {
				panic(unsupported("index into struct"))
			}
			v = x.F[pe.Field]
		case ArrayV:
			if pe.Idx == nil {
				panic(unsupported("field of array"))
			}
			if !pe.Idx.konst && len(x.E) > 0 && len(x.E) <= 1024 {
				// table lookup with a symbolic index (e.g. utf8's first[256]): ite chain over scalar elements; the index
				// is in range because the bounds check precedes the dereference
				v = e.selectElem(x.E, pe.Idx)
				continue
			}
			i := e.concreteIndex(st, pe.Idx, len(x.E))
			v = x.E[i]
		case ByteArr:
			if pe.Idx == nil {
				panic(unsupported("field of bytearr"))
			}
			if pe.Idx.konst {
				if pe.Idx.cv >= uint64(len(x.E)) {
					panic(unsupported("byte array index out of range at deref"))
				}
				v = BV{x.E[pe.Idx.cv]}
			} else {
				v = BV{e.sel(&CVec{x.E}, pe.Idx)}
			}
		case ByteBuf:
			if pe.Idx == nil {
				panic(unsupported("field of bytebuf"))
			}
			v = BV{e.sel(x.C, pe.Idx)}
		default:
			panic(unsupported("getAt through %T", v))
		}
	}
	return v
}

func (e *Exec) setAt(st *State, v Value, path []PathElem, nv Value) Value {
	if len(path) == 0 {
		return nv
	}
	pe := path[0]
	switch x := v.(type) {
	case StructV:
		f := make([]Value, len(x.F))
		copy(f, x.F)
		f[pe.Field] = e.setAt(st, x.F[pe.Field], path[1:], nv)
		return StructV{f}
	case ArrayV:
		i := e.concreteIndex(st, pe.Idx, len(x.E))
		el := make([]Value, len(x.E))
		copy(el, x.E)
		el[i] = e.setAt(st, x.E[i], path[1:], nv)
		return ArrayV{el}
	case ByteArr:
		b, ok := nv.(BV)
		if !ok || len(path) != 1 {
			panic(unsupported("store %T into byte array", nv))
		}
		el := make([]*Term, len(x.E))
		copy(el, x.E)
		if pe.Idx.konst {
			if pe.Idx.cv >= uint64(len(el)) {
				panic(unsupported("byte array store out of range"))
			}
			el[pe.Idx.cv] = b.T
		} else {
			for i := range el {
				el[i] = e.tc.Ite(e.tc.Eq(pe.Idx, e.tc.Int(int64(i))), b.T, el[i])
			}
		}
		return ByteArr{el}
	case ByteBuf:
		b, ok := nv.(BV)
		if !ok || len(path) != 1 {
			panic(unsupported("store %T into byte buffer", nv))
		}
		return ByteBuf{C: &CStore{Prev: x.C, Idx: pe.Idx, Val: b.T}, Len: x.Len}
	}
	panic(unsupported("setAt through %T", v))
}

func (e *Exec) concreteIndex(st *State, t *Term, n int) int {
	if !t.konst {
		panic(unsupported("symbolic index into non-byte container"))
	}
	if t.cv >= uint64(n) {
		panic(unsupported("index %d out of range %d at deref", t.cv, n))
	}
	return int(t.cv)
}

func (e *Exec) load(st *State, p Ptr) Value {
	if p.IsNil() {
		panic(unsupported("load through nil pointer (unchecked)"))
	}
	obj, ok := st.heap[p.Obj]
	if !ok {
		panic(unsupported("load: dangling object %d", p.Obj))
	}
	return e.getAt(st, obj, p.Path)
}

func (e *Exec) store(st *State, p Ptr, v Value) {
	if p.IsNil() {
		panic(unsupported("store through nil pointer (unchecked)"))
	}
	obj, ok := st.heap[p.Obj]
	if !ok {
		panic(unsupported("store: dangling object %d", p.Obj))
	}
	st.heap[p.Obj] = e.setAt(st, obj, p.Path, v)
}

// --- state merging ----------------------------------------------------------------

// tryMerge merges b into a (returning a new state) or reports failure.
func (e *Exec) tryMergeStates(a, b *State) (m *State, cond *Term, ok bool) {
	if a.noMerge || b.noMerge || e.opts.NoMerge || a.tag != b.tag || a.sends != b.sends || a.locks != b.locks || len(a.randVals) != len(b.randVals) || len(a.unlockedMapAccess) != len(b.unlockedMapAccess) {
		return nil, nil, false
	}
	if (a.panicVal != nil) != (b.panicVal != nil) || a.pending != nil || b.pending != nil {
		return nil, nil, false
	}
	if len(a.spawned) != len(b.spawned) {
		return nil, nil, false
	}
	tc := e.tc
	// common pc prefix
	k := 0
	for k < len(a.pc) && k < len(b.pc) && a.pc[k] == b.pc[k] {
		k++
	}
	ca := tc.AndN(a.pc[k:])
	cb := tc.AndN(b.pc[k:])
	if ca.IsTrue() || cb.IsTrue() || ca == cb {
		// not provably disjoint by construction
		return nil, nil, false
	}
	defer func() {
		if r := recover(); r != nil {
			if mf, isMF := r.(mergeFail); isMF {
				if debugTrace {
					fmt.Fprintf(os.Stderr, "merge of states failed: %s\n", mf.why)
				}
				m, cond, ok = nil, nil, false
				return
			}
			panic(r)
		}
	}()
	n := &State{heap: make(map[int]Value, len(a.heap)), counts: map[string]int{}, tag: a.tag, sends: a.sends, locks: a.locks, distinctRand: a.distinctRand, unlockedMapAccess: append([]mapAccess(nil), a.unlockedMapAccess...)}
	for id, va := range a.heap {
		if vb, ok := b.heap[id]; ok {
			if sameValue(va, vb) {
				n.heap[id] = va
			} else {
				n.heap[id] = e.mergeValue(ca, va, vb)
			}
		} else {
			n.heap[id] = va
		}
	}
	for id, vb := range b.heap {
		if _, ok := a.heap[id]; !ok {
			n.heap[id] = vb
		}
	}
	for i := range a.spawned {
		sa, sb := a.spawned[i], b.spawned[i]
		if len(sa.Args) != len(sb.Args) {
			panic(mergeFail{"spawn"})
		}
		fn := e.mergeValue(ca, sa.Fn, sb.Fn)
		args := make([]Value, len(sa.Args))
		for j := range args {
			args[j] = e.mergeValue(ca, sa.Args[j], sb.Args[j])
		}
		n.spawned = append(n.spawned, Spawn{fn, args})
	}
	if a.panicVal != nil {
		n.panicVal = e.mergeValue(ca, a.panicVal, b.panicVal)
		n.panicMsg = a.panicMsg
	}
	for k2, v := range a.counts {
		n.counts[k2] = v
	}
	for k2, v := range b.counts {
		if v > n.counts[k2] {
			n.counts[k2] = v
		}
	}
	n.pc = append([]*Term(nil), a.pc[:k]...)
	n.pc = append(n.pc, tc.Or(ca, cb))
	n.noMerge = false
	if a.lastNowSec != nil && b.lastNowSec != nil {
		n.lastNowSec, n.lastNowNsec = tc.Ite(ca, a.lastNowSec, b.lastNowSec), tc.Ite(ca, a.lastNowNsec, b.lastNowNsec)
	} else if a.lastNowSec != nil {
		n.lastNowSec, n.lastNowNsec = a.lastNowSec, a.lastNowNsec
	} else {
		n.lastNowSec, n.lastNowNsec = b.lastNowSec, b.lastNowNsec
	}
	seenIn := map[string]int{}
	for _, d := range a.inputs {
		seenIn[d.Name] = len(n.inputs)
		n.inputs = append(n.inputs, d)
	}
	for _, d := range b.inputs {
		if i, ok := seenIn[d.Name]; ok {
			// drawn on both sides: its guard is the disjunction
			if n.inputs[i].Guard != nil && d.Guard != nil && n.inputs[i].Guard != d.Guard {
				n.inputs[i].Guard = tc.Or(n.inputs[i].Guard, d.Guard)
			}
		} else {
			n.inputs = append(n.inputs, d)
		}
	}
	n.obsBad = a.obsBad || b.obsBad
	if len(a.obs) != len(b.obs) {
		n.obsBad = true
	} else {
		for i := range a.obs {
			oa, ob := a.obs[i], b.obs[i]
			if oa.Name != ob.Name || oa.Kind != ob.Kind {
				n.obsBad = true
				break
			}
			if oa.Kind == "bytes" {
				n.obs = append(n.obs, Observation{Name: oa.Name, Kind: oa.Kind, C: e.mergeContent(ca, oa.C, ob.C), Off: tc.Ite(ca, oa.Off, ob.Off), Len: tc.Ite(ca, oa.Len, ob.Len)})
			} else {
				n.obs = append(n.obs, Observation{Name: oa.Name, Kind: oa.Kind, T: []*Term{tc.Ite(ca, oa.T[0], ob.T[0])}})
			}
		}
	}
	if n.obsBad {
		n.obs = nil
	}
	e.stats.Merges++
	return n, ca, true
}

func (e *Exec) tryMergeFrames(c *Term, a, b *Frame) (f *Frame, ok bool) {
	if a.fn != b.fn || len(a.defers) != len(b.defers) {
		return nil, false
	}
	defer func() {
		if r := recover(); r != nil {
			if mf, isMF := r.(mergeFail); isMF {
				if debugTrace {
					fmt.Fprintf(os.Stderr, "merge of frames failed: %s\n", mf.why)
				}
				f, ok = nil, false
				return
			}
			panic(r)
		}
	}()
	n := &Frame{fn: a.fn, locals: make(map[ssa.Value]Value, len(a.locals)), visits: map[int]int{}, depth: a.depth}
	for k, va := range a.locals {
		if vb, ok := b.locals[k]; ok {
			if sameValue(va, vb) {
				n.locals[k] = va
			} else {
				n.locals[k] = e.mergeValue(c, va, vb)
			}
		}
	}
	for i := range a.defers {
		da, db := a.defers[i], b.defers[i]
		if da.site != db.site || len(da.args) != len(db.args) {
			panic(mergeFail{"defers"})
		}
		fn := e.mergeValue(c, da.fn, db.fn)
		args := make([]Value, len(da.args))
		for j := range args {
			args[j] = e.mergeValue(c, da.args[j], db.args[j])
		}
		n.defers = append(n.defers, deferred{fn, args, da.site})
	}
	for k, v := range a.visits {
		n.visits[k] = v
	}
	for k, v := range b.visits {
		if v > n.visits[k] {
			n.visits[k] = v
		}
	}
	return n, true
}

func (s *State) String() string { return fmt.Sprintf("state(pc=%d heap=%d)", len(s.pc), len(s.heap)) }

// selectElem is elems[idx] for a symbolic idx: an ite chain over elements of one shape.
func (e *Exec) selectElem(elems []Value, idx *Term) (r Value) {
	defer func() {
		if p := recover(); p != nil {
			if _, ok := p.(mergeFail); ok {
				panic(unsupported("symbolic index into a container whose elements differ in shape"))
			}
			panic(p)
		}
	}()
	r = elems[0]
	for i := 1; i < len(elems); i++ {
		if !sameValue(elems[i], r) {
			r = e.mergeValue(e.tc.Eq(idx, e.tc.Int(int64(i))), elems[i], r)
		}
	}
	return r
}
