#!/bin/sh
# usage: run.sh <property id> <quick|thorough>
# Rebuilds the SSA of /repo's current working tree (with the property's harness overlaid, /repo is not written),
# executes it symbolically, decides every obligation with z3, replays counterexamples natively, writes evidence/<id>.json.
cd "$(dirname "$0")"
export GOFLAGS=-mod=mod GOPROXY=off GOSUMDB=off GOTOOLCHAIN=local
[ -x bin/mobverif ] || sh ./setup.sh >/dev/null || exit 2
TIER="${2:-${VERIF_TIER:-quick}}"
T=1500; [ "$TIER" = thorough ] && T=7000
timeout $T ./bin/mobverif run -verif "$(pwd)" -prop "$1" -tier "$TIER"
rc=$?
if [ $rc -eq 124 ] || [ $rc -eq 137 ]; then
  # the wall-clock limit was hit: nothing is claimed for what was not finished, and no alarm is raised
  echo "INCONCLUSIVE property=$1 the run exceeded its wall-clock limit of ${T}s and was stopped"
  exit 0
fi
exit $rc
