#!/bin/sh
# usage: run.sh <property id> <quick|thorough>
# Rebuilds the SSA of /repo's current working tree (with the property's harness overlaid, /repo is not written),
# executes it symbolically, decides every obligation with z3, replays counterexamples natively, writes evidence/<id>.json.
cd "$(dirname "$0")"
export GOFLAGS=-mod=mod GOPROXY=off GOSUMDB=off GOTOOLCHAIN=local
[ -x bin/mobverif ] || sh ./setup.sh >/dev/null || exit 2
TIER="${2:-${VERIF_TIER:-quick}}"
T=1500; [ "$TIER" = thorough ] && T=7000
exec timeout $T ./bin/mobverif run -verif "$(pwd)" -prop "$1" -tier "$TIER"
